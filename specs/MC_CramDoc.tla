-------------------------------- MODULE MC_CramDoc --------------------------------
EXTENDS CramDoc, Json
Texts == [x \in 1..Len(doc) |-> doc[x].txt]
Emit == Done => PrintT(<<"REPLAY", ToJson([lines |-> Texts, ref |-> CramRef, machine |-> [tests |-> tests, err |-> err]])>>)
=============================================================================

SPECIFICATION Spec
CONSTANTS
  Tier = "quick"
INVARIANTS TypeOK Emit
CHECK_DEADLOCK FALSE

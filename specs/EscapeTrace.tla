--------------------------------- MODULE EscapeTrace ---------------------------------
(* (T) layer for C11: each record is one line of bytes pushed through the real Escaper and read back through the
   real expectation parser; TLC judges the property and compares the text with the intended encoding. *)
EXTENDS Escape, Json, IOUtils

Rec == ndJsonDeserialize(IOEnv.TRACE)
VARIABLE i
TraceInit == i = 0 /\ mode = "ascii" /\ s = <<>>
Load == /\ i < Len(Rec) /\ i' = i + 1
        /\ mode' = Rec[i + 1].mode
        /\ s' = IF Rec[i + 1].ev = "Load" THEN Rec[i + 1].s ELSE <<>>
TraceSpec == TraceInit /\ [][Load]_<<i, mode, s>>

R == Rec[i]
O == R.obs
Good(o) == /\ o.result = "ok"
           /\ o.printable_ok                 \* only printable characters for the mode
           /\ o.parse_ok                     \* reads back as the kind it announces
           /\ o.matches_orig                 \* ... and matches the original line
           /\ o.neighbour_matches = 0        \* ... and no line with different content
\* both ways by which scrut writes the text for a line: generated from output, and canonical rendering of an
\* existing equal expectation ("skip": the line is not valid UTF-8, so it cannot be an equal expectation)
\* ("collision": the harness did not judge a line that was written verbatim and itself ends like the marker, see Collides
\* -- only accepted where the line ends in the class S and the verbatim text is printable for the mode)
C11ok == IF O.result = "collision" THEN R.ev = "Load" /\ s # <<>> /\ s[Len(s)] = "S" /\ O.printable_ok
         ELSE Good(O) /\ (O.render.result = "skip" \/ Good(O.render))
\* variant 0 uses the spec's representative bytes: the text should be the intended encoding (else: drift)
IntendedText == Written(mode, s)
Verdicts == (i > 0) =>
    /\ (C11ok \/ PrintT(<<"VERDICT", "C11", R.id>>))
    /\ (R.ev = "Load" /\ R.variant = 0 /\ O.result = "ok" /\ O.text # IntendedText => PrintT(<<"DRIFT", R.id>>))
Accepted == TLCGet("stats").diameter - 1 = Len(Rec)
=============================================================================

--------------------------------- MODULE ConfigLayers ---------------------------------
(***************************************************************************)
(* C16: configuration layering.                                             *)
(*                                                                         *)
(* Four layers, highest precedence first:                                   *)
(*     cli  >  tc (inline config of the test case)  >  doc (document        *)
(*     `defaults`)  >  fmt (format default)                                 *)
(* A layer assigns to every scalar key "U" (unset), "A" or "B", and to      *)
(* every environment variable "U", "A" or "B".  `prepend` / `append` are    *)
(* lists that accumulate instead of overriding.                             *)
(*                                                                         *)
(* (A) Merge(hi, lo) is the binary layering step (with_defaults_from);      *)
(*     Effective is the fold in the order the code applies it:              *)
(*       parser:   tc <- doc <- fmt      test command: cli over that         *)
(*       executor: <- doc (again)                                            *)
(* (P) the value in effect is that of the highest layer that sets it;       *)
(*     Merge is associative; an empty layer is an identity.                 *)
(***************************************************************************)
EXTENDS Naturals, Sequences, FiniteSets, TLC

Keys    == {"output_stream", "keep_crlf", "timeout", "detached", "skip_document_code", "strip_ansi_escaping", "wait"}
EnvVars == {"X", "Y"}
Vals    == {"U", "A", "B"}
\* only these keys can be set on the command line
CliKeys == {"output_stream", "keep_crlf"}

Layer == [scalar : [Keys -> Vals], env : [EnvVars -> Vals]]
Empty == [scalar |-> [k \in Keys |-> "U"], env |-> [e \in EnvVars |-> "U"]]

Or(a, b) == IF a # "U" THEN a ELSE b
Merge(hi, lo) == [scalar |-> [k \in Keys |-> Or(hi.scalar[k], lo.scalar[k])],
                  env    |-> [e \in EnvVars |-> Or(hi.env[e], lo.env[e])]]

\* the order of application in the code (three call sites)
Parsed(tc, doc, fmt)          == Merge(Merge(tc, doc), fmt)
Commanded(cli, tc, doc, fmt)  == Merge(cli, Parsed(tc, doc, fmt))
Effective(cli, tc, doc, fmt)  == Merge(Commanded(cli, tc, doc, fmt), doc)

\* (P) highest layer that sets it
Highest(v) == IF v[1] # "U" THEN v[1] ELSE IF v[2] # "U" THEN v[2] ELSE IF v[3] # "U" THEN v[3] ELSE v[4]
PrecedenceOK(cli, tc, doc, fmt, eff) ==
    /\ \A k \in Keys : eff.scalar[k] = Highest(<<cli.scalar[k], tc.scalar[k], doc.scalar[k], fmt.scalar[k]>>)
    /\ \A e \in EnvVars : eff.env[e] = Highest(<<cli.env[e], tc.env[e], doc.env[e], fmt.env[e]>>)

\* (P) the value in effect for a test case is a function of ITS OWN four layers: what a neighbouring test case of the
\* same document has configured - and what the shell state it leaves behind holds for that variable - does not change it
\* ("environment: a set of environment variable names and values that will be explicitly set for the test").  Observed end
\* to end only (the test case under test is the second of its document; the first one runs with the document defaults,
\* or with another inline value for every variable in effect; and: the document under test is the second document of the
\* invocation, the first one has other document defaults): "skip" = not realised, "ok", "fail".
NeighbourIndependent(observed) == observed \in {"skip", "ok"}

\* lists: command line prepends come first, command line appends last
MergeLists(hi, lo) == [prepend |-> hi.prepend \o lo.prepend, append |-> lo.append \o hi.append]

-----------------------------------------------------------------------------
(* enumeration: one focus key takes every assignment in the four layers, one other key interferes *)
VARIABLES cli, tc, doc, fmt
vars == <<cli, tc, doc, fmt>>
With(l, k, v)    == [l EXCEPT !.scalar[k] = v]
WithEnv(l, e, v) == [l EXCEPT !.env[e] = v]
Init ==
    \/ \E k \in Keys, k2 \in Keys, a \in [1..4 -> Vals], b \in [1..2 -> Vals] :
          /\ k # k2
          /\ (k \notin CliKeys => a[1] = "U") /\ (k2 \notin CliKeys => b[1] = "U")
          /\ cli = With(With(Empty, k, a[1]), k2, b[1])
          /\ tc  = With(With(Empty, k, a[2]), k2, b[2])
          /\ doc = With(With(Empty, k, a[3]), k2, "U")
          /\ fmt = With(Empty, k, a[4])
    \/ \E a \in [1..3 -> Vals], b \in [1..3 -> Vals] :      \* environment maps: overlapping and disjoint names
          /\ cli = Empty                                     \* no command line flag sets test environment variables
          /\ tc  = WithEnv(WithEnv(Empty, "X", a[1]), "Y", b[1])
          /\ doc = WithEnv(WithEnv(Empty, "X", a[2]), "Y", b[2])
          /\ fmt = WithEnv(WithEnv(Empty, "X", a[3]), "Y", b[3])
Next == UNCHANGED vars
Spec == Init /\ [][Next]_vars

ModelPrecedence == PrecedenceOK(cli, tc, doc, fmt, Effective(cli, tc, doc, fmt))
Associative == /\ Merge(Merge(cli, tc), doc) = Merge(cli, Merge(tc, doc))
               /\ Merge(Merge(tc, doc), fmt) = Merge(tc, Merge(doc, fmt))
Identity == /\ Merge(tc, Empty) = tc /\ Merge(Empty, tc) = tc /\ Merge(doc, Empty) = doc /\ Merge(Empty, doc) = doc
ListsAccumulate ==
    LET hi == [prepend |-> <<"p-cli">>, append |-> <<"a-cli">>]
        lo == [prepend |-> <<"p-doc">>, append |-> <<"a-doc">>]
    IN MergeLists(hi, lo) = [prepend |-> <<"p-cli", "p-doc">>, append |-> <<"a-doc", "a-cli">>]
=============================================================================

------------------------------ MODULE MC_MarkdownDoc ------------------------------
EXTENDS MarkdownDoc, Json
Texts == [x \in 1..Len(lines) |-> lines[x].txt]
Emit == Done => PrintT(<<"REPLAY", ToJson([lines |-> Texts, ref |-> MdRef(doc), machine |-> [tests |-> tests, err |-> err]])>>)
=============================================================================

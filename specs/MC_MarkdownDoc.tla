------------------------------ MODULE MC_MarkdownDoc ------------------------------
EXTENDS MarkdownDoc, Json
Texts == [x \in 1..Len(lines) |-> lines[x].txt]
SegInfo == [x \in 1..Len(doc) |-> [k |-> doc[x].k, len |-> Len(RenderSeg(doc[x])), ncom |-> Len(doc[x].com), cfg |-> doc[x].cfg,
                                hascmd |-> (doc[x].k = "scrut" /\ HasCmd(doc[x].lines)), term |-> doc[x].term, n |-> doc[x].n, cn |-> doc[x].cn]]
Emit == Done => PrintT(<<"REPLAY", ToJson([lines |-> Texts, segs |-> SegInfo, ref |-> MdRef(doc), fm |-> (IF \E x \in 1..Len(doc) : doc[x].k = "fm" /\ ~doc[x].term THEN "any" ELSE IF HasFm(doc) THEN "yes" ELSE "no"), machine |-> [tests |-> tests, err |-> err]])>>)
=============================================================================

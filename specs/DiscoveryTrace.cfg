SPECIFICATION TraceSpec
INVARIANTS Verdicts
POSTCONDITION TraceAccepted
CHECK_DEADLOCK FALSE

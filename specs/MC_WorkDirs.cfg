SPECIFICATION Spec
CONSTANTS
  NP = 2
  Full = FALSE
INVARIANTS Clean Separate
CHECK_DEADLOCK FALSE

---------------------------------- MODULE Generate ----------------------------------
(***************************************************************************)
(* C09: tests that scrut generates (`create`, `update` of a failing test)   *)
(* pass against the very output they were generated from.                   *)
(*                                                                         *)
(* An output is a sequence of line *classes* (what the line looks like to   *)
(* the document syntax), a flag whether the last line is terminated, and an *)
(* exit code.  The pipeline  generate ; parse ; validate  is run on the     *)
(* real code; the property is a predicate over what came back.  The class   *)
(* table below records which syntax each class can collide with -- it       *)
(* drives the enumeration and names the cases.                              *)
(***************************************************************************)
EXTENDS Naturals, Sequences, FiniteSets, TLC

CONSTANT K      \* maximal number of output lines

Classes == {"plain", "blank", "ws_only", "trail_ws", "lead_ws", "looks_code", "looks_cmd", "looks_cont", "fence3", "fence4",
            "sfx_kind", "sfx_quant", "sfx_empty", "sfx_esc", "sfx_noeol", "bslash", "ctrl", "bslash_ctrl", "bslash_other", "tail_cr", "utf8",
            "utf8_other", "invalid_utf8", "hash", "fence_indent", "mid_mod"}
\* ("mid_mod": modifier-like text in the MIDDLE of the line, e.g. `value (escaped) here` -- collides with nothing)
\* what a line of the class could be mistaken for when written verbatim into a test block
Collides(c, fmt) ==
    CASE c = "looks_code" -> "exit-code"
      [] c = "looks_cmd"  -> IF fmt = "cram" THEN "command" ELSE "none"
      [] c = "looks_cont" -> "continuation"            \* only directly after the command
      [] c \in {"sfx_kind", "sfx_quant", "sfx_esc", "sfx_noeol"} -> "modifier"
      [] c \in {"fence3", "fence4", "fence_indent"} -> IF fmt = "md" THEN "fence" ELSE "none"
      [] c \in {"blank", "ws_only"} -> IF fmt = "cram" THEN "block-end" ELSE "none"
      [] OTHER -> "none"
NeedsEscape(c, esc) == c \in {"ctrl", "bslash_ctrl", "bslash_other", "tail_cr", "invalid_utf8", "utf8_other"} \/ (esc = "ascii" /\ c = "utf8")

VARIABLES lines, lastEol, code, fmt, esc, path
vars == <<lines, lastEol, code, fmt, esc, path>>
Init == /\ lines \in UNION {[1..n -> Classes] : n \in 0..K}
        /\ lastEol \in BOOLEAN /\ (lines = <<>> => lastEol)
        /\ code \in {0, 3} /\ fmt \in {"md", "cram"} /\ esc \in {"ascii", "unicode"}
        \* update_pass / convert_pass: a PASSING test is written again (updating a Cram document writes every test anew,
        \* `--convert` writes every test in the other format); the test it starts from is the one `create` wrote
        /\ path \in {"create", "update_output", "update_code", "convert", "update_pass", "convert_pass"}
Next == UNCHANGED vars
Spec == Init /\ [][Next]_vars

\* the property, over an observation o of the real pipeline:
\*   o.generated : the generator returned text      o.parsed   : the text parsed without error
\*   o.ntests    : number of tests parsed back      o.same_cmd : the (only) test has the same shell expression
\*   o.passes    : validating it against the same output and exit code succeeds
C09ok(o) == o.generated /\ o.parsed /\ o.ntests = 1 /\ o.same_cmd /\ o.passes

\* name of the case, for reports: the first class that collides or needs escaping, its position, and the settings
FirstSpecial == IF \E x \in 1..Len(lines) : Collides(lines[x], fmt) # "none" \/ NeedsEscape(lines[x], esc)
                THEN LET x == CHOOSE y \in 1..Len(lines) :
                              /\ (Collides(lines[y], fmt) # "none" \/ NeedsEscape(lines[y], esc))
                              /\ \A z \in 1..(y - 1) : ~(Collides(lines[z], fmt) # "none" \/ NeedsEscape(lines[z], esc))
                     IN [cls |-> lines[x], pos |-> IF x = 1 THEN "first" ELSE IF x = Len(lines) THEN "last" ELSE "middle",
                         collides |-> Collides(lines[x], fmt)]
                ELSE [cls |-> "none", pos |-> "-", collides |-> "none"]
TypeOK == Len(lines) <= K
=============================================================================

------------------------------ MODULE TestCommandTrace ------------------------------
(***************************************************************************)
(* (T) layer for `scrut test`: each record is one run of the real binary    *)
(* on a materialised scenario: [sc |-> scenario, obs |-> observation].      *)
(* TLC evaluates the (P) predicates C05ok / C14ok / C15ok / C20ok on it; a  *)
(* failing predicate prints a VERDICT line.                                 *)
(***************************************************************************)
EXTENDS TestCommandProps, Json, IOUtils

Rec == ndJsonDeserialize(IOEnv.TRACE)

VARIABLE i
TraceInit == i = 0
Load == i < Len(Rec) /\ i' = i + 1
TraceSpec == TraceInit /\ [][Load]_i

R == Rec[i]
Report(p, ok) == ok \/ PrintT(<<"VERDICT", p, R.id>>)

Verdicts == (i > 0) =>
    /\ Report("C05", C05ok(R.sc, R.obs))
    /\ Report("C14", C14ok(R.sc, R.obs))
    /\ Report("C15", C15ok(R.sc, R.obs))
    /\ Report("C20", C20ok(R.sc, R.obs))

Accepted == TLCGet("stats").diameter - 1 = Len(Rec)
=============================================================================

--------------------------------- MODULE MC_Generate ---------------------------------
EXTENDS Generate, Json
Emit == PrintT(<<"REPLAY", ToJson([lines |-> lines, lastEol |-> lastEol, code |-> code, fmt |-> fmt, esc |-> esc, path |-> path,
                                   special |-> FirstSpecial])>>)
=============================================================================

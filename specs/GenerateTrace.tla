-------------------------------- MODULE GenerateTrace --------------------------------
(* (T) layer for C09: each record is one run of generate ; parse ; validate on the real code. *)
EXTENDS Generate, Json, IOUtils
Rec == ndJsonDeserialize(IOEnv.TRACE)
VARIABLE i
TraceInit == i = 0 /\ lines = <<>> /\ lastEol = TRUE /\ code = 0 /\ fmt = "md" /\ esc = "ascii" /\ path = "create"
Load == /\ i < Len(Rec) /\ i' = i + 1
        /\ lines' = Rec[i + 1].lines /\ lastEol' = Rec[i + 1].lastEol /\ code' = Rec[i + 1].code
        /\ fmt' = Rec[i + 1].fmt /\ esc' = Rec[i + 1].esc /\ path' = Rec[i + 1].path
TraceSpec == TraceInit /\ [][Load]_<<vars, i>>
R == Rec[i]
Verdicts == (i > 0) => (C09ok(R.obs) \/ PrintT(<<"VERDICT", "C09", R.id, ToJson(FirstSpecial)>>))
Accepted == TLCGet("stats").diameter - 1 = Len(Rec)
=============================================================================

SPECIFICATION Spec
CONSTANTS
  NE = 3
  NL = 3
INVARIANTS TypeOK Sound Conserve Complete RefAgree
PROPERTIES Progress
CHECK_DEADLOCK FALSE

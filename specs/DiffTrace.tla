--------------------------------- MODULE DiffTrace ---------------------------------
(***************************************************************************)
(* (T) layer for DiffAlgo, property level: every record is one finished    *)
(* execution of the real DiffTool::diff / TestCase::validate, projected    *)
(* onto (n, m, q, M, out).  TLC evaluates the (P) predicates of DiffAlgo   *)
(* on it.  A failing predicate prints a VERDICT line (the driver turns it  *)
(* into VIOLATION / KNOWN-FINDING); the run itself always completes so     *)
(* that every record is examined.                                          *)
(***************************************************************************)
EXTENDS DiffAlgo, Json, IOUtils

Rec == ndJsonDeserialize(IOEnv.TRACE)

VARIABLE i
tvars == <<vars, i>>

TraceInit == /\ i = 0
             /\ n = 0 /\ m = 0 /\ q = <<>> /\ M = <<>>
             /\ ei = 1 /\ li = 1 /\ ms = 0 /\ out = <<>> /\ pc = "loop"

SeqToSet(s) == {s[x] : x \in 1..Len(s)}

Load == /\ i < Len(Rec)
        /\ i' = i + 1
        /\ LET r == Rec[i + 1] IN
             /\ n' = r.n /\ m' = r.m /\ q' = r.q
             /\ M' = [k \in 1..r.n |-> SeqToSet(r.M[k])]
             /\ out' = r.out
        /\ pc' = "done" /\ ei' = 1 /\ li' = 1 /\ ms' = 0

TraceSpec == TraceInit /\ [][Load]_tvars

R == Rec[i]
Crashed == R.panic \/ R.hang \/ R.err # ""

\* "scrut judges the stream as matching": the diff has no differences, or validate() says ok
JudgedMatch == ~R.hd \/ R.val_out = "ok" \/ R.val_err = "ok"
JudgedAll   == ~R.hd /\ R.val_out = "ok" /\ R.val_err = "ok"

C01ok == Crashed \/ ((JudgedMatch \/ ~HasDiff) => InLang)
C02ok == ~Crashed /\ ConserveOf(out) /\ R.bytes_ok /\ (R.hd <=> HasDiff)
\* "... reports a match EXACTLY when the output is described": both directions under determinism
C03ok == Crashed \/ (Det => /\ (InLang => JudgedAll /\ ~HasDiff)
                            /\ ((JudgedMatch \/ ~HasDiff) => InLang))

Report(p, ok) == ok \/ PrintT(<<"VERDICT", p, R.id>>)

Verdicts == (i > 0) =>
              /\ Report("C01", C01ok)
              /\ Report("C02", C02ok)
              /\ Report("C03", C03ok)
              /\ (Det /\ InLang => PrintT(<<"NONTRIVIAL", "det-accept", R.id>>))

\* counters for vacuity control, printed once at the end
Accepted == /\ TLCGet("stats").diameter - 1 = Len(Rec)
=============================================================================

SPECIFICATION TraceSpec
CONSTANTS
  NE = 16
  NL = 32
INVARIANTS StepInv
POSTCONDITION Accepted
CHECK_DEADLOCK FALSE

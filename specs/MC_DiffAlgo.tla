------------------------------- MODULE MC_DiffAlgo -------------------------------
(* Model-checking / generation wrapper for DiffAlgo (TLC only). *)
EXTENDS DiffAlgo, Json, TLCExt

SetToSeq(S) == LET RECURSIVE F(_) 
                   F(T) == IF T = {} THEN <<>> ELSE LET x == Min(T) IN <<x>> \o F(T \ {x})
               IN F(S)

\* one JSON line per finished behaviour = one abstract input with the model's prediction
Vector == [n |-> n, m |-> m, q |-> q, M |-> [k \in 1..n |-> SetToSeq(M[k])],
           out |-> out, lang |-> InLang, det |-> Det]
Emit == Done => PrintT(<<"REPLAY", ToJson(Vector)>>)
=============================================================================

SPECIFICATION Spec
CONSTANTS
  Tier = "quick"
INVARIANTS CrlfAlgoOK VerbatimOK DividerOK Emit
CHECK_DEADLOCK FALSE

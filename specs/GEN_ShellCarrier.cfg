SPECIFICATION Spec
CONSTANTS
  MaxTests = 4
  MaxOps = 2
INVARIANTS CarriesOver FileIsSession Emit
CHECK_DEADLOCK FALSE

SPECIFICATION Spec
CONSTANTS
  MaxTests = 4
  MaxOps = 2
  Family = "all"
INVARIANTS CarriesOver FileIsSession Emit
CHECK_DEADLOCK FALSE

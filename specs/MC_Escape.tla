---------------------------------- MODULE MC_Escape ----------------------------------
EXTENDS Escape, Json
Emit == PrintT(<<"REPLAY", ToJson([mode |-> mode, s |-> s, marked |-> Marked(mode, s), text |-> Encode(mode, s)])>>)
=============================================================================

-------------------------------- MODULE MC_UpdateCommand --------------------------------
EXTENDS UpdateCommand, Json
Emit == Done => PrintT(<<"REPLAY", ToJson([docs |-> docs, flags |-> flags])>>)
=============================================================================

SPECIFICATION Spec
INVARIANTS TypeOK DesignOK Emit
CHECK_DEADLOCK FALSE

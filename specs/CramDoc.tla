----------------------------------- MODULE CramDoc -----------------------------------
(***************************************************************************)
(* C07: Cram `.t` documents.  A document is a sequence of lines, each with  *)
(* its text and its lexical class:                                          *)
(*   "title"   unindented text            "one"   text indented by ONE space (= unindented)   *)
(*   "blank"   empty line                 "comment"  `# ...` at column 0                      *)
(*   "cmd"     `  $ c`     "cont"  `  > c`     "code"  `  [256]`                                  *)
(*   "exp"     any other line indented by two spaces (incl. whitespace-only, extra indent,    *)
(*             trailing blanks, `  # not a comment`)                                           *)
(*                                                                         *)
(*  (P) CramRef : declarative reading by positions                          *)
(*  (A) CramTok : the line loop of src/parsers/cram.rs + LineParser state   *)
(***************************************************************************)
EXTENDS Naturals, Sequences, FiniteSets, TLC

CONSTANT MaxLen

L(txt, cls, arg) == [txt |-> txt, cls |-> cls, arg |-> arg]
Alphabet == { L("A title", "title", "A title"),
              L("", "blank", ""),
              L("# a comment", "comment", ""),
              L("  $ c1", "cmd", "c1"),
              L("  > c2", "cont", "c2"),
              L("  > > c3", "cont", "> c3"),                \* only ONE continuation marker is removed
              L("  out", "exp", "out"),
              L("  ", "exp", ""),                          \* two spaces only: an empty expectation line
              L("   lead", "exp", " lead"),                \* three spaces: the third one belongs to the text
              L("  trail  ", "exp", "trail  "),
              L("  # not a comment", "exp", "# not a comment"),
              L("  [256]", "code", "256"),               \* any unsigned number is an exit code as written (the Markdown model has `[3]`)
              L("  [-1]", "exp", "[-1]"),
              L("  [3] x", "exp", "[3] x"),                \* ... and only when nothing follows the closing bracket                  \* only unsigned digits in brackets are an exit code
              L(" x", "one", " x") }

VARIABLES doc, pos, command, exps, code, title, titleFresh, inCommand, startIdx, tests, err
vars == <<doc, pos, command, exps, code, title, titleFresh, inCommand, startIdx, tests, err>>

Test(cmd, es, c, line, t) == [cmd |-> cmd, exps |-> es, code |-> c, line |-> line, title |-> t]
Unindented(l) == l.cls \in {"title", "one"}
Indented(l)   == l.cls \in {"cmd", "cont", "exp", "code"}

-----------------------------------------------------------------------------
(* (P) reference by positions *)
N == Len(doc)
Vis(i) == doc[i].cls # "comment"
\* next visible index after i (N + 1 if none)
RECURSIVE NextVis(_)
NextVis(i) == IF i >= N THEN N + 1 ELSE IF Vis(i + 1) THEN i + 1 ELSE NextVis(i + 1)
\* the continuation lines directly following the command at i
RECURSIVE Conts(_)
Conts(i) == LET j == NextVis(i) IN IF j <= N /\ doc[j].cls = "cont" THEN <<doc[j].arg>> \o Conts(j) ELSE <<>>
RECURSIVE AfterConts(_)
AfterConts(i) == LET j == NextVis(i) IN IF j <= N /\ doc[j].cls = "cont" THEN AfterConts(j) ELSE j
\* body lines from visible index j on: until blank / unindented / next command / end
RECURSIVE Body(_)
Body(j) == IF j > N \/ ~Indented(doc[j]) \/ doc[j].cls = "cmd" THEN <<>> ELSE <<doc[j]>> \o Body(NextVis(j))
\* an expectation-like `  > c` line is kept with its marker
BodyText(l) == IF l.cls = "cont" THEN "> " \o l.arg ELSE l.arg
\* nearest preceding visible unindented line with no command in between (0 if none)
RECURSIVE TitleIdx(_)
TitleIdx(i) == IF i = 0 THEN 0
               ELSE IF ~Vis(i) THEN TitleIdx(i - 1)
               ELSE IF Unindented(doc[i]) THEN i
               ELSE IF doc[i].cls = "cmd" THEN 0
               ELSE TitleIdx(i - 1)
CmdIdx == {i \in 1..N : doc[i].cls = "cmd"}
RefTest(i) ==
    LET body == Body(AfterConts(i))
        noncode == SelectSeq(body, LAMBDA l : l.cls # "code")
        codes == SelectSeq(body, LAMBDA l : l.cls = "code")
        t == TitleIdx(i - 1)
    IN [t |-> Test(<<doc[i].arg>> \o Conts(i), [x \in 1..Len(noncode) |-> BodyText(noncode[x])],
                   IF Len(codes) = 1 THEN codes[1].arg ELSE "", i, IF t = 0 THEN "" ELSE doc[t].txt),
        hasTitle |-> t # 0, twoCodes |-> Len(codes) > 1]
\* an indented non-command line that has no command before it in its block
RECURSIVE BlockHasCmdBefore(_)
BlockHasCmdBefore(i) == IF i = 0 THEN FALSE
                        ELSE IF ~Vis(i) THEN BlockHasCmdBefore(i - 1)
                        ELSE IF doc[i].cls = "cmd" THEN TRUE
                        ELSE IF ~Indented(doc[i]) THEN FALSE
                        ELSE BlockHasCmdBefore(i - 1)
Orphans == {i \in 1..N : doc[i].cls \in {"cont", "exp"} /\ ~BlockHasCmdBefore(i - 1)}
\* an exit-code line that belongs to no command: the statement is silent about it -> such documents are not judged
OrphanCodes == {i \in 1..N : doc[i].cls = "code" /\ ~BlockHasCmdBefore(i - 1)}

SetToSortedSeq(S) == LET RECURSIVE F(_)
                         F(T) == IF T = {} THEN <<>> ELSE LET m == CHOOSE x \in T : \A y \in T : x <= y IN <<m>> \o F(T \ {m})
                     IN F(S)
CramRef == [tests |-> [x \in 1..Cardinality(CmdIdx) |->
                          LET r == RefTest(SetToSortedSeq(CmdIdx)[x]) IN [t |-> r.t, hasTitle |-> r.hasTitle]],
            must_err |-> (\E i \in CmdIdx : RefTest(i).twoCodes),
            \* indented lines that belong to no command: the statement is silent -> only "never crashes" is judged
            unjudged |-> OrphanCodes # {} \/ Orphans # {}]

-----------------------------------------------------------------------------
(* (A) the machine: cram.rs line loop with the LineParser state inlined *)
AtEnd == pos > N
Line == doc[pos]
HasBody == command # <<>> \/ exps # <<>>
Flush == /\ command' = <<>> /\ exps' = <<>> /\ code' = "" /\ title' = "" /\ titleFresh' = FALSE /\ startIdx' = 0
\* LineParser::end_testcase
EndTestcase(thenTitle, newTitle) ==
    IF command # <<>>
    THEN /\ tests' = Append(tests, [t |-> Test(command, exps, code, startIdx, title), hasTitle |-> titleFresh])
         /\ command' = <<>> /\ exps' = <<>> /\ code' = "" /\ startIdx' = 0
         /\ title' = (IF thenTitle THEN newTitle ELSE "")
         /\ titleFresh' = thenTitle
         /\ UNCHANGED err
    ELSE /\ err' = (err \/ exps # <<>>)
         /\ (IF thenTitle THEN title' = newTitle /\ titleFresh' = TRUE ELSE UNCHANGED <<title, titleFresh>>)
         /\ UNCHANGED <<tests, command, exps, code, startIdx>>

SkipComment == ~AtEnd /\ Line.cls = "comment" /\ pos' = pos + 1
               /\ UNCHANGED <<doc, command, exps, code, title, titleFresh, inCommand, startIdx, tests, err>>
BlankLine ==
    /\ ~AtEnd /\ Line.cls = "blank" /\ pos' = pos + 1
    /\ IF HasBody THEN EndTestcase(FALSE, "") ELSE UNCHANGED <<tests, command, exps, code, title, titleFresh, startIdx, err>>
    /\ UNCHANGED <<doc, inCommand>>
CmdLine ==
    /\ ~AtEnd /\ Line.cls = "cmd" /\ pos' = pos + 1 /\ inCommand' = TRUE
    /\ IF command # <<>>
       THEN \* a further command ends the previous test first
            /\ tests' = Append(tests, [t |-> Test(command, exps, code, startIdx, title), hasTitle |-> titleFresh])
            /\ exps' = <<>> /\ code' = "" /\ title' = "" /\ titleFresh' = FALSE
            /\ command' = <<Line.arg>> /\ startIdx' = pos
       ELSE /\ command' = <<Line.arg>> /\ startIdx' = pos
            /\ UNCHANGED <<tests, exps, code, title, titleFresh>>
    /\ UNCHANGED <<doc, err>>
ContLine ==
    /\ ~AtEnd /\ Line.cls = "cont" /\ pos' = pos + 1
    /\ IF inCommand
       THEN \* `>` directly after a command continues it; after a flushed command it is an error
            command' = Append(command, Line.arg) /\ err' = (err \/ command = <<>>) /\ UNCHANGED exps
       ELSE exps' = Append(exps, "> " \o Line.arg) /\ UNCHANGED <<command, err>>
    /\ UNCHANGED <<doc, code, title, titleFresh, inCommand, startIdx, tests>>
CodeLine ==
    /\ ~AtEnd /\ Line.cls = "code" /\ pos' = pos + 1 /\ inCommand' = FALSE
    /\ code' = Line.arg /\ err' = (err \/ code # "")
    /\ UNCHANGED <<doc, command, exps, title, titleFresh, startIdx, tests>>
ExpLine ==
    /\ ~AtEnd /\ Line.cls = "exp" /\ pos' = pos + 1 /\ inCommand' = FALSE
    /\ exps' = Append(exps, Line.arg)
    /\ UNCHANGED <<doc, command, code, title, titleFresh, startIdx, tests, err>>
UnindentedLine ==
    /\ ~AtEnd /\ Unindented(Line) /\ pos' = pos + 1
    /\ EndTestcase(TRUE, Line.txt)
    /\ UNCHANGED <<doc, inCommand>>
Eof ==
    /\ pos = N + 1 /\ pos' = N + 2
    /\ IF HasBody THEN EndTestcase(FALSE, "") ELSE UNCHANGED <<tests, command, exps, code, title, titleFresh, startIdx, err>>
    /\ UNCHANGED <<doc, inCommand>>
Next == SkipComment \/ BlankLine \/ CmdLine \/ ContLine \/ CodeLine \/ ExpLine \/ UnindentedLine \/ Eof

Init == /\ doc \in UNION {[1..n -> Alphabet] : n \in 0..MaxLen}
        /\ pos = 1 /\ command = <<>> /\ exps = <<>> /\ code = "" /\ title = "" /\ titleFresh = FALSE
        /\ inCommand = FALSE /\ startIdx = 0 /\ tests = <<>> /\ err = FALSE
Spec == Init /\ [][Next]_vars

Done == pos = N + 2
Agrees == Done /\ ~CramRef.unjudged =>
                  /\ (CramRef.must_err <=> err)
                  /\ (~err => tests = CramRef.tests)
=============================================================================

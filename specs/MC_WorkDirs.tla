---------------------------------- MODULE MC_WorkDirs ----------------------------------
EXTENDS WorkDirs, Json
AllExited == \A p \in Procs : Exited(p)
Emit == AllExited => PrintT(<<"REPLAY", ToJson([sc |-> sc])>>)
=============================================================================

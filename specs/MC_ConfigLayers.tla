------------------------------- MODULE MC_ConfigLayers -------------------------------
EXTENDS ConfigLayers, Json
Emit == PrintT(<<"REPLAY", ToJson([cli |-> cli, tc |-> tc, doc |-> doc, fmt |-> fmt, eff |-> Effective(cli, tc, doc, fmt)])>>)
=============================================================================

----------------------------- MODULE MC_ConfigRoundTrip -----------------------------
EXTENDS ConfigRoundTrip, Json
Emit == PrintT(<<"REPLAY", ToJson([cfg |-> cfg, env |-> env, form |-> form])>>)
=============================================================================

SPECIFICATION RSpec
CONSTANTS
  NE = 3
  NL = 2
INVARIANTS ShowsAll Emit
CHECK_DEADLOCK FALSE

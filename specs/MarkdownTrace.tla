------------------------------- MODULE MarkdownTrace -------------------------------
(* (T) layer for C06: each record is one call of the real MarkdownParser::parse on a rendered document,
   together with the reference reading MdRef that TLC computed for that document. *)
EXTENDS Naturals, Sequences, Json, IOUtils, TLC

Rec == ndJsonDeserialize(IOEnv.TRACE)
VARIABLE i
TraceInit == i = 0
Load == i < Len(Rec) /\ i' = i + 1
TraceSpec == TraceInit /\ [][Load]_i

R == Rec[i]
TitleOK(t, T) == \/ t = T.run
                 \/ (T.run # <<>> /\ t = <<T.run[Len(T.run)]>>)
                 \/ ~T.fresh          \* no heading / paragraph since the previous test: "" and the nearest earlier one are accepted
TestOK(o, r) == /\ o.cmd = r.cmd /\ o.exps = r.exps /\ o.code = r.code /\ o.cfg = r.cfg /\ o.line = r.line
                /\ TitleOK(o.title, r.titles)
C06ok ==
    /\ R.obs.result # "panic"
    /\ (R.obs.result = "ok" =>
          /\ ~R.ref.must_err
          /\ Len(R.obs.tests) = Len(R.ref.tests)
          /\ (R.fm = "any" \/ (R.obs.fm <=> R.fm = "yes"))                  \* the document configuration was read iff the document has a front-matter
          /\ \A x \in 1..Len(R.ref.tests) : TestOK(R.obs.tests[x], R.ref.tests[x]))
\* a document without any malformed or rejectable construct whose tests are not yielded: prose / other blocks hid them
Hidden == R.obs.result = "err" /\ ~R.ref.may_err /\ ~R.ref.must_err /\ Len(R.ref.tests) > 0
Verdicts == (i > 0) => ((C06ok /\ ~Hidden) \/ PrintT(<<"VERDICT", "C06", R.id>>))
             /\ (R.obs.result = "err" /\ ~R.ref.may_err /\ ~R.ref.must_err /\ ~Hidden => PrintT(<<"UNEXPECTED-ERR", R.id>>))
Accepted == TLCGet("stats").diameter - 1 = Len(Rec)
=============================================================================

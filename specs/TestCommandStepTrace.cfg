SPECIFICATION TraceSpec
CONSTANTS
  Focus = "TRACE"
CONSTRAINT Progress
INVARIANTS AllDone
POSTCONDITION Accepted
CHECK_DEADLOCK FALSE

---------------------------------- MODULE MC_Capture ----------------------------------
EXTENDS Capture, Json
Emit == PrintT(<<"REPLAY", ToJson([tests |-> tests, keep |-> keep, strip |-> strip, stream |-> stream, exec |-> exec])>>)
=============================================================================

------------------------------ MODULE Discovery ------------------------------
(***************************************************************************)
(* (A) layer of file discovery: the depth-first walk of                     *)
(* src/bin/utils/file_parser.rs as a machine, checked by TLC against the    *)
(* (P) layer in DiscoveryProps (reference by path counting, predicate       *)
(* DiscOk).  See the header of DiscoveryProps for the file tree and the     *)
(* named behaviours of the code.                                            *)
(***************************************************************************)
EXTENDS DiscoveryProps

\* ---------------------------------------------------------------- (A) the walk
VARIABLES sc, argi, stack, found, pc
vars == <<sc, argi, stack, found, pc>>
\* stack: sequence of frames, a frame = the entries of a directory that read_dir has not yet yielded
\* found: per argument index, how often each file node was pushed to the result
ZeroBag == [f \in FileNodes |-> 0]

Scenarios == {}      \* overridden by the MC module
DInit == /\ sc \in Scenarios
         /\ argi = 0 /\ stack = <<>> /\ pc = "walk"
         /\ found = [i \in 1..Len(sc.args) |-> ZeroBag]

Cur == sc.args[argi]
Push(f) == found' = [found EXCEPT ![argi][f] = @ + 1]
Visit(f) == IF Accepted(sc, f) THEN Push(f) ELSE UNCHANGED found

ArgMissing == /\ pc = "walk" /\ stack = <<>> /\ argi < Len(sc.args)
              /\ ~Exists(sc, sc.args[argi + 1])
              /\ pc' = "failed" /\ argi' = argi + 1 /\ UNCHANGED <<sc, stack, found>>
ArgFile ==    /\ pc = "walk" /\ stack = <<>> /\ argi < Len(sc.args)
              /\ Exists(sc, sc.args[argi + 1]) /\ Resolve(sc.args[argi + 1]) \in FileNodes
              /\ argi' = argi + 1
              /\ LET f == Resolve(sc.args[argi + 1]) IN
                 found' = IF Accepted(sc, f) THEN [found EXCEPT ![argi + 1][f] = @ + 1] ELSE found
              /\ UNCHANGED <<sc, stack, pc>>
ArgDir ==     /\ pc = "walk" /\ stack = <<>> /\ argi < Len(sc.args)
              /\ Exists(sc, sc.args[argi + 1]) /\ Resolve(sc.args[argi + 1]) \in DirNodes
              /\ argi' = argi + 1
              /\ stack' = <<Children(sc, Resolve(sc.args[argi + 1]))>>
              /\ UNCHANGED <<sc, found, pc>>
Top == stack[Len(stack)]
Below == SubSeq(stack, 1, Len(stack) - 1)
DirFile ==    /\ pc = "walk" /\ stack # <<>>
              /\ \E x \in Top : /\ Resolve(x) \in FileNodes
                                /\ Visit(Resolve(x))
                                /\ stack' = Append(Below, Top \ {x})
              /\ UNCHANGED <<sc, argi, pc>>
DirDir ==     /\ pc = "walk" /\ stack # <<>>
              /\ \E x \in Top : /\ Resolve(x) \in DirNodes
                                /\ stack' = Append(Append(Below, Top \ {x}), Children(sc, Resolve(x)))
              /\ UNCHANGED <<sc, argi, found, pc>>
LeaveDir ==   /\ pc = "walk" /\ stack # <<>> /\ Top = {}
              /\ stack' = Below
              /\ UNCHANGED <<sc, argi, found, pc>>
Finish ==     /\ pc = "walk" /\ stack = <<>> /\ argi = Len(sc.args)
              /\ pc' = "done" /\ UNCHANGED <<sc, argi, stack, found>>
DNext == ArgMissing \/ ArgFile \/ ArgDir \/ DirFile \/ DirDir \/ LeaveDir \/ Finish
DSpec == DInit /\ [][DNext]_vars
DFair == DSpec /\ WF_vars(DNext)

\* ---------------------------------------------------------------- design-level claims (checked by TLC)
TypeOK == /\ ScenarioWF(sc) /\ argi \in 0..Len(sc.args) /\ pc \in {"walk", "failed", "done"}
          /\ \A i \in 1..Len(stack) : stack[i] \subseteq Nodes
TotalFound == [f \in FileNodes |->
                 LET RECURSIVE S(_)
                     S(i) == IF i = 0 THEN 0 ELSE S(i - 1) + found[i][f]
                 IN S(Len(sc.args))]
\* the walk finds exactly the reference bag, argument by argument
WalkIsRef == pc = "done" =>
    /\ ~Failing(sc)
    /\ TotalFound = Full(sc)
    /\ \A i \in 1..Len(sc.args) : \A f \in FileNodes :
          found[i][f] = (IF Accepted(sc, f) THEN Cnt(sc, sc.args[i], f, TRUE) ELSE 0)
FailIsMissing == pc = "failed" => Failing(sc)
\* the model's own outcome satisfies the property predicate (with any order inside directories)
RECURSIVE BagSeq(_, _)
BagSeq(bag, F) == IF F = {} THEN <<>>
                  ELSE LET f == CHOOSE x \in F : TRUE IN [k \in 1..bag[f] |-> f] \o BagSeq(bag, F \ {f})
RECURSIVE ModelRan(_)
ModelRan(i) == IF i = 0 THEN <<>> ELSE ModelRan(i - 1) \o BagSeq(found[i], FileNodes)
ModelSatisfiesP ==
    /\ pc = "done"   => DiscOk(sc, [ran |-> ModelRan(Len(sc.args)), exit |-> 0, nres |-> Len(ModelRan(Len(sc.args)))])
    /\ pc = "failed" => DiscOk(sc, [ran |-> <<>>, exit |-> 1, nres |-> 0])
CoreBelowFull == \A f \in FileNodes : Core(sc)[f] <= Full(sc)[f]
Terminates == <>(pc \in {"done", "failed"})
=============================================================================

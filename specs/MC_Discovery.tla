------------------------------ MODULE MC_Discovery ------------------------------
(* Scenario families for model checking / generation of Discovery (TLC only). *)
EXTENDS Discovery, Json

CONSTANTS ClsA, ClsB, ClsC, ClsH, ClsE, Tier

LinkSets == IF Tier = "quick" THEN {{}, {"la", "ld"}} ELSE {{}, {"la"}, {"ld"}, {"la", "ld"}}
PatPairs == {<<"default", "default">>, <<"txt", "default">>, <<"default", "txt">>, <<"default", "md">>}
ArgLists == {<<"root">>, <<"a">>, <<"a", "e">>, <<"e", "a">>, <<"d1">>, <<"d1", "a">>, <<"d2", "e">>, <<"missing">>,
             <<"a", "missing">>, <<"la">>, <<"ld">>, <<"e", "d2", "la">>}

MCScenarios ==
    {s \in [cls : {[a |-> ca, e |-> ce, b |-> cb, c |-> cc, h |-> ch] :
                      ca \in ClsA, ce \in ClsE, cb \in ClsB, cc \in ClsC, ch \in ClsH},
            links : LinkSets, pats : PatPairs, args : ArgLists] :
        "la" \in s.links => s.cls["a"] # "absent"}
Scen(s) == [cls |-> s.cls, links |-> s.links, mdpat |-> s.pats[1], crampat |-> s.pats[2], args |-> s.args]
MCScen == {Scen(s) : s \in MCScenarios}

SetToSeq(S) == LET RECURSIVE F(_)
                   F(T) == IF T = {} THEN <<>> ELSE LET x == CHOOSE y \in T : TRUE IN <<x>> \o F(T \ {x})
               IN F(S)
\* one line per scenario, printed in the initial state of its walk, with the reference prediction
Vector == [cls |-> sc.cls, links |-> SetToSeq(sc.links), mdpat |-> sc.mdpat, crampat |-> sc.crampat, args |-> sc.args,
           parser |-> [f \in FileNodes |-> ParserOf(sc, sc.cls[f])],
           full |-> Full(sc), core |-> Core(sc), failing |-> Failing(sc)]
Emit == (argi = 0 /\ pc = "walk") => PrintT(<<"REPLAY", ToJson(Vector)>>)
=============================================================================

--------------------------------- MODULE UpdateTrace ---------------------------------
(* (T) layer for C10: each record is one run of the real MarkdownUpdateGenerator on an enumerated document. *)
EXTENDS UpdateProps, Json, IOUtils
Rec == ndJsonDeserialize(IOEnv.TRACE)
VARIABLE i
TraceInit == i = 0
Load == i < Len(Rec) /\ i' = i + 1
TraceSpec == TraceInit /\ [][Load]_i
R == Rec[i]
\* the chunks the scanner was given are recomputed here from lines + segments (binding of the scanner's input)
ChunksGiven == \A c \in 0..Len(Blocks(R.segs)) :
                  R.chunks[c + 1] = [x \in 1..Len(ChunkOf(R.lines, R.segs, c)) |-> ChunkOf(R.lines, R.segs, c)[x].txt]
Verdicts == (i > 0) =>
    /\ (ChunksGiven \/ PrintT(<<"TOOL", "chunks", R.id>>))
    /\ (C10ok(R.lines, R.segs, R.outcomes, R.obs) \/ PrintT(<<"VERDICT", "C10", R.id>>))
Accepted == TLCGet("stats").diameter - 1 = Len(Rec)
=============================================================================

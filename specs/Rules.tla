----------------------------------- MODULE Rules -----------------------------------
(***************************************************************************)
(* C04 -- the five expectation kinds, as documented, over a small alphabet. *)
(*                                                                         *)
(* Text is a sequence of one-character tokens.  Lower-case letters, digits *)
(* and punctuation stand for themselves; capitals are reserved names that  *)
(* the harness maps to bytes:                                              *)
(*    "E" = e-acute (a two-byte character)   "B" = backslash               *)
(*    "N" = LF    "T" = TAB (0x09)   "G" = BEL (0x07)   "S" = ESC (0x1b)   *)
(*    "Z" = a byte that is not valid UTF-8 on its own (0xE9), "Y" = another one (0xE8)  *)
(*    "R" = CR (0x0d): an ordinary character of the line, also directly    *)
(*          before the final LF (a CR LF ending that was kept)             *)
(*                                                                         *)
(* (P) layer only: each operator below is the documented meaning of one    *)
(* kind.  TLC enumerates (kind, expression) x candidate lines and prints   *)
(* the expected verdicts; the harness asks the real rules.                 *)
(***************************************************************************)
EXTENDS Naturals, Sequences, FiniteSets, TLC

CONSTANT Tier          \* "quick" | "thorough"

-----------------------------------------------------------------------------
(* sequences over a set, up to a length *)
RECURSIVE SeqsUpTo(_, _)
SeqsUpTo(S, k) == IF k = 0 THEN {<<>>}
                  ELSE LET shorter == SeqsUpTo(S, k - 1) IN
                       shorter \cup {Append(w, c) : w \in {x \in shorter : Len(x) = k - 1}, c \in S}

NL == "N"
TrimNL(w) == IF Len(w) > 0 /\ w[Len(w)] = NL THEN SubSeq(w, 1, Len(w) - 1) ELSE w
WithNL(w) == Append(w, NL)
Front(w)  == IF Len(w) = 0 THEN w ELSE SubSeq(w, 1, Len(w) - 1)

-----------------------------------------------------------------------------
(* equal / no-eol *)
EqualMatch(expr, line) == line = WithNL(expr)
NoEolMatch(expr, line) == line = expr

-----------------------------------------------------------------------------
(* glob: `?` exactly one character, `*` any run of characters, whole line *)
RECURSIVE GlobMatch(_, _)
GlobMatch(p, w) ==
    IF p = <<>> THEN w = <<>>
    ELSE IF Head(p) = "*" THEN
            \/ GlobMatch(Tail(p), w)
            \/ (w # <<>> /\ GlobMatch(p, Tail(w)))
    ELSE IF Head(p) = "?" THEN w # <<>> /\ GlobMatch(Tail(p), Tail(w))
    ELSE w # <<>> /\ Head(w) = Head(p) /\ GlobMatch(Tail(p), Tail(w))

(* Cram-compatible glob: additionally `\*`, `\?`, `\\` are literals *)
RECURSIVE CramGlobMatch(_, _)
CramGlobMatch(p, w) ==
    IF p = <<>> THEN w = <<>>
    ELSE IF Head(p) = "B" /\ Len(p) >= 2 /\ p[2] \in {"*", "?", "B"} THEN
            w # <<>> /\ Head(w) = p[2] /\ CramGlobMatch(Tail(Tail(p)), Tail(w))
    ELSE IF Head(p) = "*" THEN
            \/ CramGlobMatch(Tail(p), w)
            \/ (w # <<>> /\ CramGlobMatch(p, Tail(w)))
    ELSE IF Head(p) = "?" THEN w # <<>> /\ CramGlobMatch(Tail(p), Tail(w))
    ELSE w # <<>> /\ Head(w) = Head(p) /\ CramGlobMatch(Tail(p), Tail(w))

-----------------------------------------------------------------------------
(* escape sequences of `escaped` expressions (src/rules/escaped_filter.rs docs):
   \t \a \e (and \b \f \r \v) = control characters, \xHH = byte, \0OO = octal byte,
   \\ = backslash, any other \c stays as the two characters; a dangling backslash is an error.
   Decode returns a sequence of tokens, or <<"ERR">>. *)
Hex == {"0", "1", "6", "a", "e", "9", "8"}       \* (e, 9, 8 only occur in the two extra expressions `a\xe9`, `a\xe8`)
HexVal(c) == CASE c = "0" -> 0 [] c = "1" -> 1 [] c = "6" -> 6 [] c = "a" -> 10 [] c = "e" -> 14 [] c = "9" -> 9 [] c = "8" -> 8
Oct == {"0", "1", "6"}
\* the bytes that the hex / octal pairs over the alphabet can denote, by token
ByteTok(v) == CASE v = 97 -> "a" [] v = 10 -> "N" [] v = 13 -> "R" [] v = 233 -> "Z" [] v = 232 -> "Y" [] v = 9 -> "T" [] v = 7 -> "G" [] v = 27 -> "S" [] v = 92 -> "B"
                [] OTHER -> "#" \o ToString(v)          \* any other byte: "#<decimal value>"

ERR == <<"ERR">>
Cons(toks, rest) == IF rest = ERR THEN ERR ELSE toks \o rest

RECURSIVE Decode(_)
Decode(e) ==
    IF e = <<>> THEN <<>>
    ELSE IF Head(e) # "B" THEN Cons(<<Head(e)>>, Decode(Tail(e)))
    ELSE IF Len(e) = 1 THEN ERR
    ELSE LET c == e[2]
             after2 == SubSeq(e, 3, Len(e))
             after4 == SubSeq(e, 5, Len(e)) IN
        IF c = "t" THEN Cons(<<"T">>, Decode(after2))
        ELSE IF c = "a" THEN Cons(<<"G">>, Decode(after2))
        ELSE IF c = "r" THEN Cons(<<"R">>, Decode(after2))
        ELSE IF c = "B" THEN Cons(<<"B">>, Decode(after2))
        ELSE IF c = "x" THEN
            IF Len(e) >= 4 /\ e[3] \in Hex /\ e[4] \in Hex
            THEN Cons(<<ByteTok(16 * HexVal(e[3]) + HexVal(e[4]))>>, Decode(after4))
            ELSE ERR
        ELSE IF c = "0" THEN
            IF Len(e) >= 4 /\ e[3] \in Oct /\ e[4] \in Oct
            THEN Cons(<<ByteTok(8 * HexVal(e[3]) + HexVal(e[4]))>>, Decode(after4))
            ELSE ERR
        ELSE Cons(<<"B", c>>, Decode(after2))

\* Cram compatibility: a trailing ` (no-eol)` of an escaped expression (token "NE") is ignored -- the comparison ignores the
\* final newline anyway; nothing else of the expression is touched
StripNE(e) == IF Len(e) > 0 /\ e[Len(e)] = "NE" THEN Front(e) ELSE e
EscapedMatch(expr, line) == TrimNL(line) = Decode(StripNE(expr))

-----------------------------------------------------------------------------
(* regular expressions: AST as tagged tuples
     <<"lit", c>>  <<"any">>  <<"cls", seq>>  <<"rep", x, op>>  <<"cat", x, y>>  <<"alt", x, y>>  *)
RECURSIVE RMatch(_, _)
RMatch(r, w) ==
    CASE r[1] = "lit" -> w = <<r[2]>>
      [] r[1] = "any" -> Len(w) = 1
      [] r[1] = "cls" -> Len(w) = 1 /\ \E i \in 1..Len(r[2]) : w[1] = r[2][i]
      [] r[1] = "cat" -> \E i \in 0..Len(w) : RMatch(r[2], SubSeq(w, 1, i)) /\ RMatch(r[3], SubSeq(w, i + 1, Len(w)))
      [] r[1] = "alt" -> RMatch(r[2], w) \/ RMatch(r[3], w)
      [] r[1] = "rep" ->
            IF r[3] = "?" THEN w = <<>> \/ RMatch(r[2], w)
            ELSE \/ (r[3] = "*" /\ w = <<>>)
                 \/ \E i \in 1..Len(w) :
                       /\ RMatch(r[2], SubSeq(w, 1, i))
                       /\ (i = Len(w) \/ RMatch(<<"rep", r[2], "*">>, SubSeq(w, i + 1, Len(w))))
                 \/ (w = <<>> /\ RMatch(r[2], <<>>))

\* text of a regex as a user writes it: parentheses only where precedence needs them
Special == {"$", "^", ".", "|", "(", ")", "*", "+", "?", "[", "]", "B"}   \* literal use needs a backslash (a literal backslash is written `\\`)
Prec(r) == CASE r[1] = "alt" -> 0 [] r[1] = "cat" -> 1 [] r[1] = "rep" -> 2 [] OTHER -> 3
RECURSIVE Render(_, _)
Render(r, ctx) ==
    LET body == CASE r[1] = "lit" -> (IF r[2] \in Special THEN <<"B", r[2]>> ELSE <<r[2]>>)
                  [] r[1] = "any" -> <<".">>
                  [] r[1] = "cls" -> <<"[">> \o r[2] \o <<"]">>
                  [] r[1] = "cat" -> Render(r[2], 1) \o Render(r[3], 1)
                  [] r[1] = "alt" -> Render(r[2], 0) \o <<"|">> \o Render(r[3], 0)
                  [] r[1] = "rep" -> Render(r[2], 3) \o <<r[3]>>
    IN IF Prec(r) < ctx THEN <<"(">> \o body \o <<")">> ELSE body

RegexMatch(ast, line) == RMatch(ast, TrimNL(line))

-----------------------------------------------------------------------------
(* enumeration *)
Sigma == {"a", "b", "E"}
Words == SeqsUpTo(Sigma, 3)
Lines == Words \cup {WithNL(w) : w \in Words}
\* lines that hold a byte that is not UTF-8: for the default glob rule such a byte counts as one character (kind "globz";
\* the Cram glob rule and regular expressions are not judged on such lines: the statement speaks of characters)
ZWords == {w \in SeqsUpTo(Sigma \cup {"Z"}, 3) : \E x \in 1..Len(w) : w[x] = "Z"}
ZLines == ZWords \cup {WithNL(w) : w \in ZWords}

Atoms == {<<"lit", "a">>, <<"lit", "b">>, <<"lit", "E">>, <<"lit", "$">>, <<"lit", "B">>, <<"lit", "]">>, <<"any">>, <<"cls", <<"a", "b">>>>}
RWords == SeqsUpTo(Sigma \cup {"$"}, 3) \cup SeqsUpTo(Sigma \cup {"$", "B", "]"}, 2)      \* (backslash / bracket only in short lines)
BraceWords == {<<"{", "}">>, <<"a", "{", "}">>, <<"{", "a", "}">>, <<"{", "}", "b">>, <<"a">>, <<"{">>, <<"a", "a">>}
RLines == RWords \cup {WithNL(w) : w \in RWords} \cup BraceWords \cup {WithNL(w) : w \in BraceWords}
Ops(S, T) == {<<"rep", x, o>> : x \in S, o \in {"*", "?", "+"}}
             \cup {<<"cat", x, y>> : x \in S, y \in T} \cup {<<"alt", x, y>> : x \in S, y \in T}
L1 == Atoms \cup Ops(Atoms, Atoms)
Small == {<<"lit", "a">>, <<"lit", "b">>, <<"any">>, <<"rep", <<"lit", "a">>, "*">>, <<"rep", <<"lit", "b">>, "?">>,
          <<"cat", <<"lit", "a">>, <<"lit", "b">>>>, <<"alt", <<"lit", "a">>, <<"lit", "b">>>>,
          <<"alt", <<"lit", "E">>, <<"lit", "a">>>>, <<"lit", "$">>}
\* braces that are no repetition quantifier (`{}`, `a{}`, `{a}`) are ordinary characters
Brace(x) == <<"cat", <<"lit", "{">>, IF x = <<>> THEN <<"lit", "}">> ELSE <<"cat", x, <<"lit", "}">>>>>>
BraceRegexes == {Brace(<<>>), <<"cat", <<"lit", "a">>, Brace(<<>>)>>, Brace(<<"lit", "a">>), <<"cat", Brace(<<>>), <<"lit", "b">>>>}
Regexes == (IF Tier = "quick" THEN L1 \cup Ops(Small, Small) ELSE L1 \cup Ops(Small, L1) \cup Ops(L1, Small)) \cup BraceRegexes

GlobPatterns == SeqsUpTo(Sigma \cup {"?", "*"}, IF Tier = "quick" THEN 3 ELSE 4)
CramAlpha    == {"a", "*", "?", "B", "|"}       \* `|` is an ordinary character of a glob
CramPatterns == SeqsUpTo(CramAlpha, IF Tier = "quick" THEN 3 ELSE 4)
CramLines    == LET W == SeqsUpTo(CramAlpha, 3) IN W \cup {WithNL(w) : w \in W}

EscAlpha == {"a", "E", "B", "t", "r", "x", "6", "1", "0", "q"}
EscExprs == SeqsUpTo(EscAlpha, IF Tier = "quick" THEN 4 ELSE 5)
            \cup {<<"a", "B", "x", "e", "9">>, <<"B", "x", "e", "8", "a">>}       \* bytes that are not UTF-8: compared as bytes
            \cup {<<"a", "NE">>, <<"a", "B", "t", "NE">>, <<"NE">>}                 \* `text (no-eol) (esc)`
\* candidate lines for an escaped expression with decoding d (d # ERR) and raw text e
SwapInvalid(d) == [x \in 1..Len(d) |-> IF d[x] = "Z" THEN "Y" ELSE IF d[x] = "Y" THEN "Z" ELSE d[x]]
EscCands(e, d) == {d, WithNL(d), Front(d), WithNL(Front(d)), Append(d, "a"), WithNL(Append(d, "a")),
                   e, WithNL(e), <<"a">> \o d, <<>>, <<NL>>, WithNL(SwapInvalid(d))}

PlainAlpha == {"a", "E", "B", "*", ".", " ", "("}
PlainExprs == SeqsUpTo(PlainAlpha, 3)
PlainCands(e) == {e, WithNL(e), Front(e), WithNL(Front(e)), Append(e, "a"), WithNL(Append(e, "a")), <<>>, <<NL>>,
                  WithNL(WithNL(e))}

\* escaped glob: `<expr> (escaped) (glob)` -- escape sequences resolved first, then glob
EGAlpha == {"a", "B", "t", "*", "?"}
EGExprs == SeqsUpTo(EGAlpha, 3)
EGLines == LET W == SeqsUpTo({"a", "T", "B", "t"}, 3) IN W \cup {WithNL(w) : w \in W}

VARIABLES kind, expr, ast
vars == <<kind, expr, ast>>

\* explicit anchors written by the user do not change the meaning (the whole line has to match anyway): `^R$`, `^R`, `R$`
\* -- also when R is a top-level alternation or ends in an escaped `$`
Anchored(a, e) == CASE a = "both" -> <<"^">> \o e \o <<"$">> [] a = "left" -> <<"^">> \o e [] a = "right" -> e \o <<"$">>
Init == \/ kind = "regex"  /\ ast \in Regexes /\ expr = Render(ast, 0)
        \/ kind = "regex_anch" /\ ast \in L1 /\ \E a \in {"both", "left", "right"} : expr = Anchored(a, Render(ast, 0))
        \/ kind = "glob"   /\ expr \in GlobPatterns /\ ast = <<>>
        \/ kind = "globz"  /\ expr \in SeqsUpTo(Sigma \cup {"?", "*"}, 2) /\ ast = <<>>
        \/ kind = "cramglob" /\ expr \in CramPatterns /\ ast = <<>>
        \/ kind = "escaped" /\ expr \in EscExprs /\ ast = <<>>
        \/ kind = "equal"  /\ expr \in PlainExprs /\ ast = <<>>
        \/ kind = "no-eol" /\ expr \in PlainExprs /\ ast = <<>>
        \/ kind = "escglob" /\ expr \in EGExprs /\ ast = <<>>
Next == UNCHANGED vars
Spec == Init /\ [][Next]_vars

\* a candidate must be one line: LF only as the last token
ValidLine(l) == \A x \in 1..(Len(l) - 1) : l[x] # NL
\* the candidate lines and the documented verdict for each
AllCands == CASE kind \in {"regex", "regex_anch"} -> RLines
           [] kind = "glob" -> Lines
           [] kind = "globz" -> ZLines
           [] kind = "cramglob" -> CramLines
           [] kind = "escaped" -> (IF Decode(StripNE(expr)) = ERR THEN {} ELSE EscCands(StripNE(expr), Decode(StripNE(expr))) \cup {Append(Decode(StripNE(expr)), " "), WithNL(Append(Decode(StripNE(expr)), " "))})
           [] kind = "escglob" -> (IF Decode(expr) = ERR THEN {} ELSE EGLines)
           [] OTHER -> PlainCands(expr)
\* every LF-terminated candidate also with a CR directly before the LF (a kept CR LF ending): the CR belongs to the line
WithCR(l) == Front(l) \o <<"R", NL>>
Cands == LET base == {l \in AllCands : ValidLine(l)} IN base \cup {WithCR(l) : l \in {x \in base : Len(x) > 0 /\ x[Len(x)] = NL}}
Expected(line) == CASE kind \in {"regex", "regex_anch"} -> RegexMatch(ast, line)
                    [] kind \in {"glob", "globz"} -> GlobMatch(expr, TrimNL(line))
                    [] kind = "cramglob" -> CramGlobMatch(expr, TrimNL(line))
                    [] kind = "escaped" -> EscapedMatch(expr, line)
                    [] kind = "escglob" -> GlobMatch(Decode(expr), TrimNL(line))
                    [] kind = "equal" -> EqualMatch(expr, line)
                    [] kind = "no-eol" -> NoEolMatch(expr, line)
MustFail == kind \in {"escaped", "escglob"} /\ Decode(StripNE(expr)) = ERR

-----------------------------------------------------------------------------
(* sanity theorems about the reference itself, checked by TLC over the enumeration *)
GlobStarIsAny   == kind = "glob" /\ expr = <<"*">> => \A l \in Lines : Expected(l)
GlobNoWildIsEq  == kind = "glob" /\ (\A i \in 1..Len(expr) : expr[i] \in Sigma) => \A l \in Lines : Expected(l) <=> TrimNL(l) = expr
RegexAltComm    == kind = "regex" /\ ast[1] = "alt" => \A l \in RLines : Expected(l) <=> RMatch(<<"alt", ast[3], ast[2]>>, TrimNL(l))
RegexWholeLine  == kind = "regex" /\ ast[1] = "lit" => \A l \in RLines : Expected(l) <=> TrimNL(l) = <<ast[2]>>
EqualNeedsNL    == kind = "equal" => ~Expected(expr) /\ Expected(WithNL(expr))
RefSanity == GlobStarIsAny /\ GlobNoWildIsEq /\ RegexAltComm /\ RegexWholeLine /\ EqualNeedsNL
=============================================================================

--------------------------------- MODULE ShellCarrier ---------------------------------
(***************************************************************************)
(* C12: shell state carries from one test case to the next as if all        *)
(* expressions had been typed into ONE bash session, although every test    *)
(* case runs in its own process.                                            *)
(*                                                                         *)
(* State of a shell (abstract):                                             *)
(*   vars    : name -> [kind, ex, val]   kind "unset" | "scalar" | "indexed" | "assoc", ex = exported   *)
(*   funcs   : name -> "0" (undefined) | body id                                                           *)
(*   aliases : name -> 0 | body id                                                                        *)
(*   opts    : subset of set -o options      shopts : subset of shopt options                             *)
(*   cwd, stack : working directory and the rest of the directory stack                                   *)
(*                                                                         *)
(*  (P) reference: ONE session applies the operations of all test cases in  *)
(*      order (those of detached test cases leave nothing behind).          *)
(*  (A) carrier: each test case is a new process that RESTOREs the state    *)
(*      file, runs its operations, is PROBEd, and DUMPs its state in the    *)
(*      EXIT trap (not when detached).                                      *)
(***************************************************************************)
EXTENDS Naturals, Sequences, FiniteSets, TLC

CONSTANTS MaxTests, MaxOps, Family     \* Family: "all" | "interplay" (operations whose restore order / option context matters) | "persist" | "script"

\* an ordinary name, a user variable whose name starts like bash-owned ones, and one whose name starts with the name of a
\* variable scrut itself sets (only a few operations on that one, to keep the state space small)
MainNames == {"v1", "BASH_MYVAR"}
VarNames == MainNames \cup {"TMPDIR_ORIG"}
Values   == {"plain", "spaces", "squote", "dquote", "newline", "utf8", "empty", "glob_chars", "dollar"}
Opts     == {"noglob", "nounset", "pipefail", "noclobber"}
Shopts   == {"extglob", "nullglob", "dotglob"}
Dirs     == {"base", "sub1", "sub2"}

UnsetVar == [kind |-> "unset", ex |-> FALSE, val |-> "-"]
InitState == [vars |-> [n \in VarNames |-> UnsetVar], funcs |-> [f \in {"f1"} |-> "0"], aliases |-> [a \in {"a1"} |-> "0"],
              opts |-> {}, shopts |-> {}, cwd |-> "base", stack |-> <<>>, optind |-> "1"]       \* optind: the shell-maintained OPTIND

\* operations
Op(name, a, b, c) == [op |-> name, a |-> a, b |-> b, c |-> c]
OpsOn(st) ==
      {Op("setvar", n, k, v) : n \in MainNames, k \in {"scalar", "indexed", "assoc"}, v \in Values}
 \cup {Op("setexported", n, "scalar", v) : n \in MainNames, v \in Values}
 \cup {Op("setvar", "TMPDIR_ORIG", "scalar", "plain"), Op("setexported", "TMPDIR_ORIG", "scalar", "plain")}
 \* a variable given through the test case's `environment` configuration: it is "explicitly set for the test" - it behaves
 \* like `export NAME=value` typed before the expression, also when the session already holds that name (since /repo
 \* 2fae0d9; before, the restored state won), and is carried on like any exported variable.  (Names that currently are
 \* arrays are left out: what `export` means for them is bash's business, not the carrier's.)
 \cup {Op("cfgenv", n, "scalar", v) : n \in {x \in MainNames : st.vars[x].kind \in {"unset", "scalar"}}, v \in Values}
 \cup {Op("unsetvar", n, "-", "-") : n \in {x \in VarNames : st.vars[x].kind # "unset"}}
 \cup {Op("export", n, "-", "-") : n \in {x \in VarNames : st.vars[x].kind = "scalar" /\ ~st.vars[x].ex}}
 \cup {Op("unexport", n, "-", "-") : n \in {x \in VarNames : st.vars[x].ex}}
 \cup {Op("deffunc", "f1", "1", "-")}
 \* body 3 calls the alias name a1.  bash expands aliases when it READS a function definition, not when it runs it: the body
 \* keeps what the alias was (or that there was none) at definition time, whatever happens to the alias later
 \cup {Op("deffunc", "f1", "3", "-")}
 \* body 2 uses an extended glob pattern: bash can only parse it while `extglob` is on
 \cup {Op("deffunc", "f1", "2", "-") : x \in {y \in {1} : "extglob" \in st.shopts}} \cup {Op("unsetfunc", "f1", "-", "-") : x \in {y \in {1} : st.funcs["f1"] # "0"}}
 \cup {Op("defalias", "a1", b, "-") : b \in {"1", "2"}} \cup {Op("unalias", "a1", "-", "-") : x \in {y \in {1} : st.aliases["a1"] # "0"}}
 \cup {Op("setopt", o, on, "-") : o \in Opts, on \in {"on", "off"}}
 \cup {Op("shopt", o, on, "-") : o \in Shopts, on \in {"on", "off"}}
 \cup {Op("cd", d, "-", "-") : d \in Dirs}
 \cup {Op("setoptind", v, "-", "-") : v \in {"1", "3"} \ {st.optind}}        \* what a getopts loop leaves behind
 \cup {Op("pushd", d, "-", "-") : d \in {x \in Dirs : Len(st.stack) < 2}}
 \cup {Op("popd", "-", "-", "-") : x \in {y \in {1} : st.stack # <<>>}}
 \* the test case tidies up: it deletes everything below the temporary directory scrut gave it (the carrier keeps its state
 \* file in a hidden directory there); no effect on the shell state
 \cup {Op("cleantmp", "-", "-", "-")}

\* options that change how the rest of the state is parsed or expanded when it is restored, and state that is sensitive to it
Interplay(o) == \/ o.op = "shopt" /\ o.a = "extglob"
                \/ o.op = "setopt" /\ o.a \in {"noglob", "nounset"}
                \/ o.op = "deffunc" \/ o.op = "defalias"
                \/ o.op = "setvar" /\ o.a = "v1" /\ o.b \in {"scalar", "indexed"} /\ o.c \in {"glob_chars", "dollar"}
                \/ o.op = "pushd" /\ o.a = "sub1"

Apply(st, o) ==
    CASE o.op = "setvar"      -> [st EXCEPT !.vars[o.a] = [kind |-> o.b, ex |-> FALSE, val |-> o.c]]
      [] o.op = "cfgenv"      -> [st EXCEPT !.vars[o.a] = [kind |-> "scalar", ex |-> TRUE, val |-> o.c]]
      [] o.op = "setexported" -> [st EXCEPT !.vars[o.a] = [kind |-> "scalar", ex |-> TRUE, val |-> o.c]]
      [] o.op = "unsetvar"    -> [st EXCEPT !.vars[o.a] = UnsetVar]
      [] o.op = "export"      -> [st EXCEPT !.vars[o.a].ex = TRUE]
      [] o.op = "unexport"    -> [st EXCEPT !.vars[o.a].ex = FALSE]
      [] o.op = "deffunc"     -> [st EXCEPT !.funcs[o.a] = IF o.b # "3" THEN o.b
                                                                 ELSE CASE st.aliases["a1"] = "1" -> "3e1" [] st.aliases["a1"] = "2" -> "3e2" [] OTHER -> "3"]
      [] o.op = "unsetfunc"   -> [st EXCEPT !.funcs[o.a] = "0"]
      [] o.op = "defalias"    -> [st EXCEPT !.aliases[o.a] = o.b]
      [] o.op = "unalias"     -> [st EXCEPT !.aliases[o.a] = "0"]
      [] o.op = "setopt"      -> [st EXCEPT !.opts = IF o.b = "on" THEN @ \cup {o.a} ELSE @ \ {o.a}]
      [] o.op = "shopt"       -> [st EXCEPT !.shopts = IF o.b = "on" THEN @ \cup {o.a} ELSE @ \ {o.a}]
      [] o.op = "cd"          -> [st EXCEPT !.cwd = o.a]
      [] o.op = "setoptind"   -> [st EXCEPT !.optind = o.a]
      [] o.op = "pushd"       -> [st EXCEPT !.stack = <<st.cwd>> \o @, !.cwd = o.a]
      [] o.op = "popd"        -> [st EXCEPT !.cwd = Head(st.stack), !.stack = Tail(@)]
      [] o.op = "cleantmp"    -> st

RECURSIVE ApplyAll(_, _)
ApplyAll(st, ops) == IF ops = <<>> THEN st ELSE ApplyAll(Apply(st, Head(ops)), Tail(ops))

-----------------------------------------------------------------------------
(* (A) the carrier: per test case one process *)
VARIABLES hist,      \* the test cases run so far: sequence of [ops, detached]
          sess,      \* (P) the ONE reference session
          file,      \* the state file (the initial state before the first dump)
          proc,      \* state inside the current process
          obs,       \* what the probes of each test case saw
          ref,       \* what the reference session shows at the same points
          pc, cur    \* cur: the test case being run
vars == <<hist, sess, file, proc, obs, ref, pc, cur>>

\* family "persist": the first test case turns ONE option on, the second performs one representative operation (or turns
\* that option off again), the third only looks: options under which the EXIT-trap dump itself runs (noclobber, nounset, ...)
Representative(o) == \/ o.op \in {"setvar", "setexported", "cfgenv"} /\ o.a \in {"v1", "TMPDIR_ORIG"} /\ o.b = "scalar" /\ o.c = "plain"
                     \/ o.op \in {"deffunc", "defalias"}          \* (body 2 of the function only parses while extglob is on)
                     \/ o.op \in {"cd", "pushd"} /\ o.a = "sub1"
                     \/ o.op = "setoptind" \/ o.op = "cleantmp"
                     \/ o.op = "setopt" /\ (o.b = "off" \/ o.a = "pipefail")
                     \/ o.op = "shopt" /\ (o.b = "off" \/ o.a = "nullglob")
\* family "script": the document is run by the single-script executor (Cram documents, --cram-compat): ONE process for all
\* test cases, nothing is restored or dumped; a configured variable is exported once, at the start of the script
ScriptExec == Family = "script"
OpsFor(st) == CASE Family = "interplay" -> {o \in OpsOn(st) : Interplay(o)}
                [] Family = "script" -> (CASE Len(hist) = 0 -> {o \in OpsOn(st) : (o.op \in {"setopt", "shopt"} /\ o.b = "on") \/ (o.op = "cfgenv" /\ o.a = "v1")}
                                           [] Len(hist) = 1 -> {o \in OpsOn(st) : (Representative(o) /\ o.op # "cfgenv") \/ (o.a = "v1" /\ o.op \in {"unsetvar", "unexport"})
                                                                                \/ (o.op = "setexported" /\ o.a = "v1" /\ o.c = "spaces")}
                                           [] OTHER -> {})
                [] Family = "persist" -> (CASE Len(hist) = 0 -> {o \in OpsOn(st) : (o.op \in {"setopt", "shopt"} /\ o.b = "on") \/ (o.op = "pushd" /\ o.a \in {"sub1", "sub2"})}
                                            [] Len(hist) = 1 -> {o \in OpsOn(st) : Representative(o)}
                                            [] OTHER -> {})
                [] OTHER -> OpsOn(st)

Init == /\ hist = <<>> /\ sess = InitState /\ file = InitState /\ proc = InitState /\ obs = <<>> /\ ref = <<>>
        /\ pc = "idle" /\ cur = [ops |-> <<>>, detached |-> FALSE]

\* a new test case starts: a new process restores the state file (template: `source state`)
Start == /\ pc = "idle" /\ Len(hist) < MaxTests
         /\ \E det \in (IF ScriptExec THEN {FALSE} ELSE BOOLEAN) : cur' = [ops |-> <<>>, detached |-> det]
         /\ proc' = (IF ScriptExec /\ Len(hist) > 0 THEN proc ELSE file)   \* Restore (no file yet = initial state); one script: it just goes on
         /\ pc' = "run"
         /\ UNCHANGED <<hist, sess, file, obs, ref>>
\* the shell expression runs: one state-changing operation at a time
RunOp == /\ pc = "run" /\ Len(cur.ops) < MaxOps
         /\ \E o \in OpsFor(proc) : /\ (o.op = "cfgenv" => cur.ops = <<>>)        \* configuration comes before the expression
                                    /\ proc' = Apply(proc, o) /\ cur' = [cur EXCEPT !.ops = Append(@, o)]
         /\ UNCHANGED <<hist, sess, file, obs, ref, pc>>
EndOps == /\ pc = "run" /\ pc' = "probe"
          /\ UNCHANGED <<hist, sess, file, proc, obs, ref, cur>>
\* the probes see the process state; the reference session has applied the same operations
Probe == /\ pc = "probe"
         /\ obs' = Append(obs, proc)
         /\ ref' = Append(ref, ApplyAll(sess, cur.ops))
         /\ pc' = "exit"
         /\ UNCHANGED <<hist, sess, file, proc, cur>>
\* EXIT trap: the state is persisted unless the test case is detached (template: `{persist_state}`)
DumpAndExit ==
    /\ pc = "exit"
    /\ file' = (IF cur.detached THEN file ELSE proc)
    /\ sess' = (IF cur.detached THEN sess ELSE ApplyAll(sess, cur.ops))
    /\ hist' = Append(hist, cur)
    /\ pc' = "idle"
    /\ UNCHANGED <<proc, obs, ref, cur>>
Next == Start \/ RunOp \/ EndOps \/ Probe \/ DumpAndExit
Spec == Init /\ [][Next]_vars

\* (P) every test case observes exactly what the single session shows
CarriesOver == obs = ref
\* detached test cases leave nothing behind: the file only ever holds the state of the reference session
FileIsSession == pc = "idle" => file = sess
=============================================================================

---------------------------- MODULE ConfigRoundTripTrace ----------------------------
EXTENDS ConfigRoundTrip, Json, IOUtils
Rec == ndJsonDeserialize(IOEnv.TRACE)
VARIABLE i
TraceInit == i = 0 /\ cfg = Unset /\ env = <<>> /\ form = "one_liner"
Load == /\ i < Len(Rec) /\ i' = i + 1
        /\ cfg' = [k \in Keys |-> Rec[i + 1].cfg[k]] /\ env' = Rec[i + 1].env /\ form' = Rec[i + 1].form
TraceSpec == TraceInit /\ [][Load]_<<vars, i>>
R == Rec[i]
Verdicts == (i > 0) => (C17ok(R.obs) \/ PrintT(<<"VERDICT", "C17", R.id>>))
Accepted == TLCGet("stats").diameter - 1 = Len(Rec)
=============================================================================

--------------------------------- MODULE ShellTrace ---------------------------------
(* (T) layer for C12: each record is one history run through the real per-process executor (obs), through ONE bash
   session (single, the cross-check of my model of bash) and through the reference session of the spec (ref). *)
EXTENDS Naturals, Sequences, FiniteSets, Json, IOUtils, TLC
Rec == ndJsonDeserialize(IOEnv.TRACE)
VARIABLE i
TraceInit == i = 0
Load == i < Len(Rec) /\ i' = i + 1
TraceSpec == TraceInit /\ [][Load]_i
R == Rec[i]
SeqSet(s) == {s[x] : x \in 1..Len(s)}
VarEq(o, r) == o.kind = r.kind /\ (r.kind # "unset" => o.ex = r.ex /\ o.val = r.val)
\* an observation (parsed probe output) equals a state of the spec
StateEq(o, r) ==
    /\ \A n \in DOMAIN r.vars : n \in DOMAIN o.vars /\ VarEq(o.vars[n], r.vars[n])
    /\ o.funcs["f1"] = r.funcs["f1"] /\ o.aliases["a1"] = r.aliases["a1"]
    /\ SeqSet(o.opts) = SeqSet(r.opts) /\ SeqSet(o.shopts) = SeqSet(r.shopts)
    /\ o.cwd = r.cwd /\ o.stack = r.stack /\ o.optind = r.optind
    /\ o.env_ok                          \* exported scalars (and only they) are in the environment, with the same value
IsState(o) == "vars" \in DOMAIN o
K == 1..Len(R.hist)
\* every test case observes what the single session shows at that point; a detached test case, whose output scrut does not
\* capture, writes its probe to a file (where that file did not appear the test case is not judged: IsState is false)
Judged(k) == ~R.hist[k].detached \/ IsState(R.obs[k])
C12ok == \A k \in K : Judged(k) => IsState(R.obs[k]) /\ StateEq(R.obs[k], R.ref[k])
\* my model of bash agrees with bash itself (otherwise the verdict above is not trusted)
ModelOK == \A k \in K : ~R.hist[k].detached => IsState(R.single[k]) /\ StateEq(R.single[k], R.ref[k])
FirstBad == CHOOSE k \in K : Judged(k) /\ ~(IsState(R.obs[k]) /\ StateEq(R.obs[k], R.ref[k]))
Verdicts == (i > 0) =>
    /\ (ModelOK \/ PrintT(<<"TOOL", "model-of-bash", R.id>>))
    /\ (C12ok \/ PrintT(<<"VERDICT", "C12", R.id, FirstBad>>))
Accepted == TLCGet("stats").diameter - 1 = Len(Rec)
=============================================================================

--------------------------------- MODULE RenderTrace ---------------------------------
(* (T) layer for C19: each record is one outcome list rendered by all five renderers of the real code. *)
EXTENDS Naturals, Sequences, Json, IOUtils, TLC
Rec == ndJsonDeserialize(IOEnv.TRACE)
VARIABLE i
TraceInit == i = 0
Load == i < Len(Rec) /\ i' = i + 1
TraceSpec == TraceInit /\ [][Load]_i
R == Rec[i]
Human == {"pretty_color", "pretty_mono", "diff"}
Structured == {"json", "yaml"}
\* a rendering is returned without crashing; human renderings show every unmatched expectation and unexpected line and
\* no section for a passed test; structured ones are well-formed with one entry per outcome and its result kind
RendererOK(name) ==
    LET o == R.obs[name] IN
    /\ o.result = "ok"
    /\ (name \in Human => o.missing = 0 /\ ~o.passed_shown)
    /\ (name \in Structured => o.entries = R.n_outcomes /\ o.kinds_ok)
Verdicts == (i > 0) => \A name \in Human \cup Structured :
                          RendererOK(name) \/ PrintT(<<"VERDICT", "C19", R.id, name>>)
Accepted == TLCGet("stats").diameter - 1 = Len(Rec)
=============================================================================

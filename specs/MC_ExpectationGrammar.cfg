SPECIFICATION Spec
CONSTANTS
  Tier = "quick"
INVARIANTS RefSanity Emit
CHECK_DEADLOCK FALSE

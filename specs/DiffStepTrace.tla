------------------------------- MODULE DiffStepTrace -------------------------------
(***************************************************************************)
(* (T) layer for DiffAlgo, step level: the events emitted by the hooks in  *)
(* src/diff.rs (one per loop branch, after the cursor update) must be      *)
(* steps of the (A) machine.  A rejected trace is DRIFT (the algorithm     *)
(* model and the code have diverged), not a property violation.            *)
(***************************************************************************)
EXTENDS DiffAlgo, Json, IOUtils

Rec == ndJsonDeserialize(IOEnv.TRACE)

VARIABLE i
tvars == <<vars, i>>

TraceInit == /\ i = 0
             /\ n = 0 /\ m = 0 /\ q = <<>> /\ M = <<>>
             /\ ei = 1 /\ li = 1 /\ ms = 0 /\ out = <<>> /\ pc = "done"

SeqToSet(s) == {s[x] : x \in 1..Len(s)}
IsEvent(e) == i < Len(Rec) /\ Rec[i + 1].ev = e /\ i' = i + 1
E == Rec[i + 1]

\* a new input: re-initialise the machine (traces of many calls are concatenated)
Input == /\ IsEvent("Input")
         /\ pc = "done"
         /\ n' = E.n /\ m' = E.m /\ q' = E.q
         /\ M' = [k \in 1..E.n |-> SeqToSet(E.M[k])]
         /\ ei' = 1 /\ li' = 1 /\ ms' = 0 /\ out' = <<>> /\ pc' = "loop"

DiffStart == IsEvent("DiffStart") /\ E.n = n /\ E.m = m /\ UNCHANGED vars

\* the logged cursors are 0-based, after the update
Cursor == ei' = E.ei + 1 /\ li' = E.li + 1 /\ ms' = E.ms

Step(name, A) == IsEvent(name) /\ A /\ Cursor

TraceNext == \/ Input \/ DiffStart
             \/ Step("MultiYield", MultiYield)
             \/ Step("MultiConsume", MultiConsume)
             \/ Step("SingleMatch", SingleMatch)
             \/ Step("RunEnd", RunEnd)
             \/ Step("PeekExp", PeekExp)
             \/ Step("PeekLine", PeekLine)
             \/ Step("PeekNone", PeekNone)
             \/ Step("TailStep", TailStep)

TraceSpec == TraceInit /\ [][TraceNext]_tvars

\* the (P) predicates must also hold in every state the implementation visits
StepInv == TypeOK /\ Sound /\ Conserve /\ Complete

Accepted ==
    LET d == TLCGet("stats").diameter - 1 IN
    IF d = Len(Rec) THEN TRUE
    ELSE /\ PrintT(<<"DRIFT", d + 1, ToJson(Rec[d + 1])>>)
         /\ FALSE
=============================================================================

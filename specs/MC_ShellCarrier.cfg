SPECIFICATION Spec
CONSTANTS
  MaxTests = 2
  MaxOps = 1
INVARIANTS CarriesOver FileIsSession
CHECK_DEADLOCK FALSE

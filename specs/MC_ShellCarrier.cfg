SPECIFICATION Spec
CONSTANTS
  MaxTests = 2
  MaxOps = 1
  Family = "all"
INVARIANTS CarriesOver FileIsSession
CHECK_DEADLOCK FALSE

----------------------------- MODULE TestCommandProps -----------------------------
(***************************************************************************)
(* `scrut test` end to end -- scenario structure and the (P) layer: the     *)
(* properties C05, C14, C15, C20 as predicates over a scenario `s` and an   *)
(* observation `o` of a run.  No variables: used by the algorithm model     *)
(* (TestCommand.tla) on its own results and by the trace specification      *)
(* (TestCommandTrace.tla) on observations of the real binary.              *)
(***************************************************************************)
EXTENDS Naturals, Integers, Sequences, FiniteSets, TLC

None == -1          \* "not set" for numeric fields
DefaultTotal == 900
DefaultSkip == 80
-----------------------------------------------------------------------------
(* scenario structure *)

\* a test case
\*  id      : unique name (also its title and the marker it appends to the run log)
\*  beh     : "exit" (exits with `code` after `dur` ticks) | "signal" (kills its own shell with SIGKILL)
\*  exp     : expected exit code written in the test (None = not written)
\*  out     : where the command writes its marker line: "stdout" | "stderr" | "both" | "none"
\*  stream  : output_stream configured: "stdout" | "stderr" | "combined"
\*  expect  : "match" (expectations are exactly the lines of the configured stream) | "mismatch" | "none"
\*  t       : per-test timeout in ticks (None = not set)
\*  det     : detached
\*  skip    : skip_document_code set inline on this test case (None = not set)
Tc(id, beh, code, dur, exp, out, stream, expect, t, det, skip) ==
    [id |-> id, beh |-> beh, code |-> code, dur |-> dur, exp |-> exp, out |-> out, stream |-> stream,
     expect |-> expect, t |-> t, det |-> det, skip |-> skip,
     wait |-> 0,      \* `wait`: ticks scrut sleeps before it starts the command (not subject to any limit)
     sinline |-> TRUE,  \* the stream is written in the test case's own configuration (FALSE: it comes from the document, see sdef)
     sab |-> FALSE]     \* the command first damages what scrut keeps below $TMPDIR (replaces the carrier's state file by a
                        \* directory): a fault of the environment that changes NOTHING about what the test case did - its
                        \* exit code is still its exit code (no field of the model reads `sab`; that is the statement)

\* a document
\*  fmt   : "md" | "cram"
\*  tfm   : total_timeout in the front-matter in ticks (None = absent, 0 = unlimited)
\*  skipdef : defaults.skip_document_code in the front-matter (None = absent)
\*  fault : "no" | "unreadable" | "unparsable" | "missing" (the given path does not exist)
\*          | "nomatch" (the given file's name matches neither document pattern: it is silently not a test document)
\*  tdef  : defaults.timeout in the front-matter: the per-test timeout of every test case that does not set its own
\*          (None = absent; only used in Markdown documents run by the per-process executor)
Doc(fmt, tfm, skipdef, fault, tests) ==
    [fmt |-> fmt, tfm |-> tfm, skipdef |-> skipdef, fault |-> fault, tests |-> tests, tdef |-> None, sdef |-> "unset"]

\* effective per-test timeout: inline beats the document default
OwnT(s, i, tc) == IF tc.t # None THEN tc.t ELSE s.docs[i].tdef

\* the run
\*  tcli : --timeout-seconds (None = not given)
\*  pre / app : test cases of the shared prepend / append document (<<>> = none)
\*  via : "cli" (-P / -A: every document) | "fm" (front-matter of the first document only)
\*        | "fm2" (the first AND the second document, both Markdown, each name shared documents OF THEIR OWN in their
\*          front-matter: pre / app belong to document 1, pre2 / app2 to document 2)
\*  noshell : --shell points to a program that does not exist
\*  dirarg : the documents are not named one by one; the directory that contains them (and a nested directory, and
\*           files that are no test documents) is given instead -- the order among them is then unspecified
\*  rel    : the shared documents given with -P / -A are named RELATIVE to the current directory, which is not the directory
\*           of the tested documents (where like-named decoy documents lie); no effect on what runs
Run(docs, tcli, pre, app, via, noshell) ==
    [docs |-> docs, tcli |-> tcli, pre |-> pre, app |-> app, via |-> via, noshell |-> noshell, dirarg |-> FALSE, compat |-> FALSE, rel |-> FALSE,
     pre2 |-> <<>>, app2 |-> <<>>]
\*  compat : --cram-compat is given: Markdown documents are executed like Cram documents (one script per document, Cram
\*           format defaults); their syntax (front-matter, inline configuration) stays Markdown
Script(s, i) == s.docs[i].fmt = "cram" \/ s.compat
\*  sdef  : defaults.output_stream in the front-matter ("unset" = absent).  `stream` of a test case is always the stream IN
\*          EFFECT (the ground truth its expectations are built from); where it comes from is a matter of how the document is
\*          written: inline beats the document default beats the format default -- StreamWF states the consistency
DefaultStream(s, i) == IF s.docs[i].sdef # "unset" THEN s.docs[i].sdef ELSE IF Script(s, i) THEN "combined" ELSE "stdout"
StreamWF(s) == \A i \in 1..Len(s.docs) : \A x \in 1..Len(s.docs[i].tests) :
                  ~s.docs[i].tests[x].sinline => s.docs[i].tests[x].stream = DefaultStream(s, i)

FaultKinds == {"unreadable", "unparsable", "missing"}      \* scrut cannot do its job: exit status 1, nothing runs
HasShared(s, i) == \/ s.via = "cli"
                   \/ (i = 1 /\ s.docs[1].fmt = "md")                    \* front-matter exists only in Markdown
                   \/ (s.via = "fm2" /\ i = 2 /\ s.docs[2].fmt = "md")
SharedPre(s, i) == IF s.via = "fm2" /\ i = 2 THEN s.pre2 ELSE s.pre
SharedApp(s, i) == IF s.via = "fm2" /\ i = 2 THEN s.app2 ELSE s.app
Assembled(s, i) == IF s.docs[i].fault = "nomatch" THEN <<>>
                   ELSE (IF HasShared(s, i) THEN SharedPre(s, i) ELSE <<>>) \o s.docs[i].tests
                        \o (IF HasShared(s, i) THEN SharedApp(s, i) ELSE <<>>)

\* effective document limit in ticks (None = unlimited): command line beats front-matter beats default
TotalLimit(s, i) ==
    LET raw == IF s.tcli # None THEN s.tcli
               ELSE IF s.docs[i].tfm # None THEN s.docs[i].tfm ELSE DefaultTotal
    IN IF raw = 0 THEN None ELSE raw

\* effective skip code of a test case: inline beats document default beats 80 (the format default, given to every test case)
OwnSkip(s, i, tc) == IF tc.skip # None THEN tc.skip ELSE IF s.docs[i].skipdef # None THEN s.docs[i].skipdef ELSE DefaultSkip
\* the script executor (Cram, --cram-compat) runs ONE script with ONE configuration: it refuses the document (execution
\* error) when the test cases do not all have the same value
InconsistentSkip(s, i) == LET T == Assembled(s, i) IN
                          Script(s, i) /\ \E x, y \in 1..Len(T) : OwnSkip(s, i, T[x]) # OwnSkip(s, i, T[y])
SkipCode(s, i, tc) == OwnSkip(s, i, tc)

\* is the configured stream accepted by the expectations?  (by construction of the scenario)
\* out = "bigutf8": more than 4 KiB of non-ASCII text on stdout;  beh = "noterm": like "exit", but the shell ignores SIGTERM
StreamNonEmpty(tc) == \/ tc.stream = "stdout" /\ tc.out \in {"stdout", "both", "bigutf8"}
                      \/ tc.stream = "stderr" /\ tc.out \in {"stderr", "both"}
                      \/ tc.stream = "combined" /\ tc.out # "none"
Accepts(tc) == tc.expect = "match" \/ (tc.expect = "none" /\ ~StreamNonEmpty(tc))
ExpCode(tc) == IF tc.exp = None THEN 0 ELSE tc.exp

MinDefined(a, b) == IF a = None THEN b ELSE IF b = None THEN a ELSE IF a <= b THEN a ELSE b
IsFailure(r) == r \in {"malformed_output", "invalid_exit_code", "internal_error", "timeout"}
-----------------------------------------------------------------------------
(* (P) the properties, over a scenario `s` and an observation `o`:
     o.res[i]  : result kinds aligned with Assembled(s, i)  ("none" = no result reported)
     o.ran[i]  : ids of the commands that ran while document i was executed, in order
     o.wallds[i] : wall time of document i in tenths of a tick (only judged for single-document runs)
     o.late[i] : ids of commands of document i that were reported as timed out but still reached their end
     o.exit    : process exit status
     o.aborted : the run ended with exit status 1 (results may be missing altogether)        *)

SlackDs == 15   \* 1.5 ticks, in tenths of a tick

IdsOf(tcs) == [x \in 1..Len(tcs) |-> tcs[x].id]
\* detached commands write their marker asynchronously: their position in the log is not judged
RanIds(tcs) == IdsOf(SelectSeq(tcs, LAMBDA tc : ~tc.det))
IsPrefixOf(a, b) == Len(a) <= Len(b) /\ \A x \in 1..Len(a) : a[x] = b[x]

\* first position whose command exits with its skip code / runs into a limit / dies, if it is reached
SkipsAt(s, i, x)   == LET tc == Assembled(s, i)[x] IN ~tc.det /\ tc.beh \in {"exit", "exitscript"} /\ tc.code = SkipCode(s, i, tc)
DiesAt(s, i, x)    == LET tc == Assembled(s, i)[x] IN ~tc.det /\ tc.beh = "signal"
\* in a document run as ONE script (Cram, --cram-compat) a command that ends the shell with a code other than the skip code
\* ends the script: the remaining commands never run and scrut cannot assign results -- an execution error
ScriptCutAt(s, i, x) == LET T == Assembled(s, i) IN
                        /\ Script(s, i) /\ ~T[x].det /\ T[x].beh = "exitscript" /\ T[x].code # SkipCode(s, i, T[x])
                        /\ \A y \in 1..(x - 1) : ~(T[y].beh = "exitscript") /\ T[y].code # SkipCode(s, i, T[y]) /\ T[y].beh # "signal"
ScriptCutShort(s, i) == \E x \in 1..Len(Assembled(s, i)) : ScriptCutAt(s, i, x)
HasFault(s) == \/ s.noshell
               \/ (\E j \in 1..Len(s.docs) : ScriptCutShort(s, j))
               \/ (\E i \in 1..Len(s.docs) : s.docs[i].fault \in FaultKinds)
               \/ (\E j \in 1..Len(s.docs) : Script(s, j) /\ \E x \in 1..Len(Assembled(s, j)) :
                       Assembled(s, j)[x].t # None \/ Assembled(s, j)[x].det)
               \/ (\E j \in 1..Len(s.docs) : InconsistentSkip(s, j))

\* ---- C05
\* a test case reported as succeeded really exited with the expected code and acceptable output, and ran
C05ok(s, o) ==
    \A i \in 1..Len(s.docs) : \A x \in 1..Len(o.res[i]) :
        LET tc == Assembled(s, i)[x]
            r  == o.res[i][x]
            inTime == \A y \in 1..x : Assembled(s, i)[y].dur = 0     \* no timing involved up to here
        IN /\ (r = "success" =>
                 /\ tc.beh = "exit" /\ tc.code = ExpCode(tc) /\ Accepts(tc)
                 /\ \E y \in 1..Len(o.ran[i]) : o.ran[i][y] = tc.id
                 /\ \A y \in 1..x : ~DiesAt(s, i, y))                    \* nor any later one that did not run
           \* a wrong exit code is reported as such, regardless of the output
           /\ (r \in {"malformed_output", "success"} /\ tc.beh = "exit" => tc.code = ExpCode(tc))
           \* iff: a completed good test case that is reported at all is reported as success
           /\ (r \notin {"none", "skipped", "success", "timeout"} /\ inTime /\ tc.beh = "exit" /\ ~tc.det
                 /\ (\A y \in 1..x : ~DiesAt(s, i, y))
                 => ~(tc.code = ExpCode(tc) /\ Accepts(tc)))

\* ---- C14
\* scenarios for C14 have well separated durations (0 or 3) and limits (1 or 6)
\* time the commands before x have used of the document limit (family TwoSlow: an earlier slow command that stayed inside
\* every limit; everywhere else this is 0)
RECURSIVE UsedBefore(_, _, _)
UsedBefore(s, i, x) == IF x <= 1 THEN 0
                       ELSE UsedBefore(s, i, x - 1) + (IF Assembled(s, i)[x - 1].det THEN 0 ELSE Assembled(s, i)[x - 1].dur)
ExceedsAt(s, i, x) ==    \* the command at x, if reached, runs longer than an applicable limit
    LET tc == Assembled(s, i)[x]
        T == TotalLimit(s, i)
    IN ~tc.det /\ tc.dur > 0 /\ ((OwnT(s, i, tc) # None /\ ~Script(s, i) /\ tc.dur > OwnT(s, i, tc))
                                 \/ (T # None /\ UsedBefore(s, i, x) + tc.dur > T))
FirstLimit(s, i, x) == LET tc == Assembled(s, i)[x] IN
    MinDefined(IF ~Script(s, i) /\ OwnT(s, i, tc) # None THEN UsedBefore(s, i, x) + OwnT(s, i, tc) ELSE None, TotalLimit(s, i))
RECURSIVE WaitUpTo(_, _, _)
WaitUpTo(s, i, x) == IF x = 0 THEN 0 ELSE Assembled(s, i)[x].wait + WaitUpTo(s, i, x - 1)
C14ok(s, o) ==
    \A i \in 1..Len(s.docs) :
        LET A == Assembled(s, i)
            slow == {x \in 1..Len(A) : ExceedsAt(s, i, x)}
            reached(x) == \A y \in 1..(x - 1) : ~SkipsAt(s, i, y) /\ ~DiesAt(s, i, y) /\ ~ExceedsAt(s, i, y)
        IN /\ \A x \in 1..Len(o.res[i]) :
               \* a command inside all limits is never reported as timed out
               /\ (o.res[i][x] = "timeout" => IF ~Script(s, i) THEN ExceedsAt(s, i, x) ELSE slow # {})
               \* one that exceeds a limit (and is reached) is reported as timeout = failed ...
               /\ (ExceedsAt(s, i, x) /\ reached(x) /\ ~Script(s, i) => o.res[i][x] = "timeout")
               \* ... and the test cases after it are skipped, not passed, and were not run
               /\ (\E y \in 1..(x - 1) : ExceedsAt(s, i, y) /\ reached(y)) /\ ~Script(s, i)
                     => (IF A[x].det THEN o.res[i][x] \in {"skipped", "none"} ELSE o.res[i][x] = "skipped")
                        /\ ~\E z \in 1..Len(o.ran[i]) : o.ran[i][z] = A[x].id
           \* the run fails
           /\ ((\E x \in slow : reached(x)) /\ ~o.aborted => o.exit = 50)
           \* "aborted": after a reported timeout the command does not go on running (no late marker)
           /\ o.late[i] = <<>>
           \* and the document stopped when the first limit was reached
           /\ (\A x \in slow : reached(x) /\ Len(s.docs) = 1 => o.wallds[i] <= 10 * (FirstLimit(s, i, x) + WaitUpTo(s, i, x)) + SlackDs)

\* ---- C15
C15ok(s, o) ==
    \A i \in 1..Len(s.docs) :
        LET A == Assembled(s, i)
            reached(x) == \A y \in 1..(x - 1) : ~SkipsAt(s, i, y) /\ ~DiesAt(s, i, y) /\ ~ExceedsAt(s, i, y)
            skipping == \E x \in 1..Len(A) : SkipsAt(s, i, x) /\ reached(x)
            timedout == \E x \in 1..Len(A) : ExceedsAt(s, i, x) /\ reached(x)
        IN /\ (skipping /\ ~o.aborted =>
                 /\ \A x \in 1..Len(o.res[i]) : o.res[i][x] \in {"skipped"}
                 /\ Len(o.res[i]) = Len(A))
           \* "... no test case is reported as skipped, except those FOLLOWING a timed-out one" (the single-script executor
           \* cannot tell which command ran into the limit: there a timeout anywhere in the document is the exception)
           /\ (~skipping => \A x \in 1..Len(o.res[i]) : o.res[i][x] = "skipped" =>
                   IF Script(s, i) THEN timedout
                   ELSE \E y \in 1..(x - 1) : y <= Len(A) /\ ExceedsAt(s, i, y) /\ reached(y))
           \* a skipped document does not make the run fail
           /\ ((\A j \in 1..Len(s.docs) : (\E x \in 1..Len(Assembled(s, j)) : SkipsAt(s, j, x) /\
                        \A y \in 1..(x - 1) : ~SkipsAt(s, j, y) /\ ~DiesAt(s, j, y) /\ ~ExceedsAt(s, j, y)))
                 /\ ~HasFault(s) => o.exit = 0)

\* ---- C20
Counted(r) == r # "none"
C20ok(s, o) ==
    /\ \A i \in 1..Len(s.docs) :
        LET A == Assembled(s, i) IN
        \* every command at most once, in assembled order (a prefix when the document was cut short)
        /\ IsPrefixOf(o.ran[i], RanIds(A))
        \* ... and all of them unless the document was aborted (skip, timeout, death, fault)
        /\ ((~o.aborted /\ \A x \in 1..Len(A) : ~SkipsAt(s, i, x) /\ ~DiesAt(s, i, x) /\ ~ExceedsAt(s, i, x))
               => o.ran[i] = RanIds(A))
        \* at most one result per test case (alignment is by id; duplicates are reported by the driver)
        /\ o.dupes = 0
        \* exactly one for every test case that is not detached, unless the run was aborted by a fault
        /\ (~o.aborted => Len(o.res[i]) = Len(A) /\ \A x \in 1..Len(A) : (o.res[i][x] = "none") => A[x].det)
    \* exit status
    /\ (HasFault(s) => o.exit = 1)
    /\ (~HasFault(s) =>
          LET failed == \E i \in 1..Len(s.docs) : \E x \in 1..Len(o.res[i]) : IsFailure(o.res[i][x])
          IN o.exit = IF failed THEN 50 ELSE 0)
    \* a test case that ran into a limit makes the run fail
    /\ (~HasFault(s) /\ (\E i \in 1..Len(s.docs) : \E x \in 1..Len(Assembled(s, i)) :
            ExceedsAt(s, i, x) /\ \A y \in 1..(x - 1) : ~SkipsAt(s, i, y) /\ ~DiesAt(s, i, y) /\ ~ExceedsAt(s, i, y))
          => o.exit = 50)
    \* the summary adds up (the driver parses the pretty renderer's summary line when there is one)
    /\ o.sumok

=============================================================================

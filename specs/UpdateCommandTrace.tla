------------------------------ MODULE UpdateCommandTrace ------------------------------
(* (T) layer for the update command: each record is one run of the real `scrut update` binary over 1..2 documents
   in a private directory: the scenario, and what the files / summary / exit status were afterwards. *)
EXTENDS Naturals, Sequences, FiniteSets, Json, IOUtils, TLC
VARIABLES docs, flags, i, fs, counts, status
INSTANCE UpdateCommand
Rec == ndJsonDeserialize(IOEnv.TRACE)
VARIABLE l
TraceInit == l = 0 /\ docs = <<>> /\ flags = <<>> /\ i = 0 /\ fs = <<>> /\ counts = <<>> /\ status = ""
Load == l < Len(Rec) /\ l' = l + 1 /\ UNCHANGED <<docs, flags, i, fs, counts, status>>
TraceSpec == TraceInit /\ [][Load]_<<l, docs, flags, i, fs, counts, status>>
R == Rec[l]
\* (P): judged on the observation;  (A): the machine's prediction, a mismatch is drift of the model, not a violation
Check(name, ok) == ok \/ PrintT(<<"VERDICT", name, R.id>>)
Verdicts == (l > 0) =>
    /\ Check("NoSilentOverwrite", NoSilentOverwrite(R.docs, R.flags, R.obs))
    /\ Check("StaleKept", StaleKept(R.docs, R.flags, R.obs))
    /\ Check("PassingUntouched", PassingUntouched(R.docs, R.flags, R.obs))
    /\ Check("FailingGetsUpdated", FailingGetsUpdated(R.docs, R.flags, R.obs))
    /\ Check("Accounted", Accounted(R.docs, R.flags, R.obs))
    /\ Check("WrittenFilesPass", R.written_pass)
    /\ Check("BlocksKept", R.blocks_kept)        \* whatever is written for a document has as many test blocks as the document
    /\ LET p == Predict(R.docs, R.flags) IN
          \/ p.fs = R.obs.fs /\ p.status = R.obs.status /\ (p.status = "ok" => R.has_summary /\ p.counts = R.obs.counts)
          \/ PrintT(<<"DRIFT", "UpdateCommand", R.id>>)
Accepted == TLCGet("stats").diameter - 1 = Len(Rec)
=============================================================================

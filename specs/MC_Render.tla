---------------------------------- MODULE MC_Render ----------------------------------
EXTENDS Render, Json, TLCExt
SetToSeq(S) == LET RECURSIVE F(_)
                   F(T) == IF T = {} THEN <<>> ELSE LET x == Min(T) IN <<x>> \o F(T \ {x})
               IN F(S)
Vector == [n |-> n, m |-> m, q |-> q, M |-> [k \in 1..n |-> SetToSeq(M[k])], out |-> out, hunks |-> hunks]
Emit == RDone => PrintT(<<"REPLAY", ToJson(Vector)>>)
=============================================================================

------------------------------ MODULE DiscoveryTrace ------------------------------
(***************************************************************************)
(* (T) layer for file discovery: each record is one run of the real binary  *)
(* on a materialised file tree: [sc |-> scenario, obs |-> observation].      *)
(* TLC evaluates the (P) predicate DiscOk (VERDICT) and the exact behaviour  *)
(* of the walk DiscExact (DRIFT) on it.                                      *)
(***************************************************************************)
EXTENDS DiscoveryProps, Json, IOUtils

Rec == ndJsonDeserialize(IOEnv.TRACE)

VARIABLE i
TraceInit == i = 0
Load == i < Len(Rec) /\ i' = i + 1
TraceSpec == TraceInit /\ [][Load]_i

R == Rec[i]
Sc == [cls |-> R.sc.cls, links |-> {R.sc.links[k] : k \in 1..Len(R.sc.links)}, mdpat |-> R.sc.mdpat,
       crampat |-> R.sc.crampat, args |-> R.sc.args]
Verdicts == (i > 0) =>
    /\ Assert(ScenarioWF(Sc), <<"record is not a scenario", R.id>>)
    /\ (DiscOk(Sc, R.obs) \/ PrintT(<<"VERDICT", "C20", R.id>>))
    /\ (DiscExact(Sc, R.obs) \/ PrintT(<<"DRIFT", "C20", R.id>>))

TraceAccepted == TLCGet("stats").diameter - 1 = Len(Rec)
=============================================================================

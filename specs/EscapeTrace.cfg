SPECIFICATION TraceSpec
CONSTANTS
  N = 4
INVARIANTS Verdicts
POSTCONDITION Accepted
CHECK_DEADLOCK FALSE

SPECIFICATION Spec
CONSTANTS
  MaxLen = 4
INVARIANTS Agrees
CHECK_DEADLOCK FALSE

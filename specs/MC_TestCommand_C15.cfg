SPECIFICATION Spec
CONSTANTS
  Focus = "C15"
INVARIANTS TypeOK InvC05 InvC14 InvC15 InvC20
CHECK_DEADLOCK FALSE

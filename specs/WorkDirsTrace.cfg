SPECIFICATION TraceSpec
CONSTANTS
  NP = 1
  Full = TRUE
INVARIANTS Verdicts
POSTCONDITION Accepted
CHECK_DEADLOCK FALSE

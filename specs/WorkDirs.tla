----------------------------------- MODULE WorkDirs -----------------------------------
(***************************************************************************)
(* C18: directories of `scrut test` runs -- one or several scrut processes   *)
(* at the same time, each over 1..2 documents.                               *)
(*                                                                         *)
(* Per document a process creates (src/bin/utils/environment.rs):            *)
(*   default : execution.* (work base) + __tmp inside it + one uniquely      *)
(*             named sub-directory per document (the working directory)      *)
(*   -w W    : the working directory is W itself; temp.* is created inside W *)
(*   --keep  : execution.* and temp.* are created and NOT removed            *)
(* and the executor creates .state.* inside the tmp directory.  When the     *)
(* document is done -- whatever its outcome -- the environment is dropped.   *)
(*                                                                         *)
(*  (A) NewEnv / InitTestFile / Execute / DropEnv / Exit, interleaved over    *)
(*      processes                                                            *)
(*  (P) Clean: at exit nothing the process created remains (unless --keep),   *)
(*      W remains; Separate: in default mode no two documents (of any         *)
(*      process) share a working directory                                    *)
(***************************************************************************)
EXTENDS Naturals, Sequences, FiniteSets, TLC

CONSTANTS NP, Full      \* Full: enumerate outcome classes / file names / environment histories (for generation)

Modes    == {"default", "workdir", "keep"}
\* "timeout_term": the timed-out shell ignores SIGTERM; "timeout_closed": the command closed its output streams and runs on
Outcomes == {"pass", "fail", "timeout", "skip", "timeout_term", "timeout_closed"}

\* env = "shared": the process is started with -P / -A documents; their test cases run as part of every document and must
\* see that document's environment too
\* env = "shadow": a test case unsets the documented variables and assigns plain (not exported) shell variables of those names
\* env = "symlink": the document is a symbolic link into another directory (TESTDIR / TESTFILE are those of the link)
\* env = "relpath": the document is named relative to a current directory below it (`../doc.md`)
\* env = "barename": scrut is started in the directory of the (first) document, which is named by its bare file name
\*                   (`doc.md`, no directory part at all); TESTDIR is still the absolute path of that directory
\* env = "compat": --cram-compat (one script per document; the documented variables except SCRUT_TEST hold there too, also
\*                 when the caller's environment sets CDPATH / GREP_OPTIONS / LANG ... to something else)
\* env = "shells": every document names its own shell in its front-matter; TESTSHELL (and the shell that runs) is per document
\* a scenario: per process its mode and the outcome classes of its documents (same file name or not)
VARIABLES sc, fs, pc, d, owned, wd
vars == <<sc, fs, pc, d, owned, wd>>
Procs == 1..NP

Dir(p, i, role) == <<p, i, role>>
UserDir(p) == <<p, 0, "W">>

ProcScen == IF Full
            THEN [mode : Modes, docs : UNION {[1..n -> Outcomes] : n \in 1..2}, samename : BOOLEAN, env : {"plain", "unset", "overwrite", "shadow", "shared", "compat", "shells", "symlink", "relpath", "barename"}]
            ELSE [mode : Modes, docs : {<<"pass">>, <<"pass", "fail">>}, samename : {TRUE}, env : {"plain"}]
Init == /\ sc \in [Procs -> ProcScen]
        /\ fs = {UserDir(p) : p \in {q \in Procs : sc[q].mode = "workdir"}}
        /\ pc = [p \in Procs |-> "new"] /\ d = [p \in Procs |-> 1]
        /\ owned = [p \in Procs |-> {}] /\ wd = [p \in Procs |-> <<>>]

NewEnv(p) ==
    /\ pc[p] = "new"
    /\ LET i == d[p]
           created == CASE sc[p].mode = "default" -> {Dir(p, i, "work"), Dir(p, i, "tmp")}
                        [] sc[p].mode = "workdir" -> {Dir(p, i, "tmp")}
                        [] sc[p].mode = "keep"    -> {Dir(p, i, "work"), Dir(p, i, "tmp")}
       IN fs' = fs \cup created /\ owned' = [owned EXCEPT ![p] = @ \cup created]
    /\ pc' = [pc EXCEPT ![p] = "init"] /\ UNCHANGED <<sc, d, wd>>
InitTestFile(p) ==
    /\ pc[p] = "init"
    /\ LET i == d[p] IN
       IF sc[p].mode = "workdir"
       THEN wd' = [wd EXCEPT ![p] = Append(@, UserDir(p))] /\ UNCHANGED <<fs, owned>>
       ELSE /\ fs' = fs \cup {Dir(p, i, "sub")} /\ owned' = [owned EXCEPT ![p] = @ \cup {Dir(p, i, "sub")}]
            /\ wd' = [wd EXCEPT ![p] = Append(@, Dir(p, i, "sub"))]
    /\ pc' = [pc EXCEPT ![p] = "exec"] /\ UNCHANGED <<sc, d>>
Execute(p) ==     \* the executor's state directory lives inside the tmp directory and is removed by the executor itself
    /\ pc[p] = "exec"
    /\ pc' = [pc EXCEPT ![p] = "drop"] /\ UNCHANGED <<sc, fs, d, owned, wd>>
DropEnv(p) ==     \* whatever the outcome class of the document was
    /\ pc[p] = "drop"
    /\ LET mine == {x \in owned[p] : x[2] = d[p]} IN
       IF sc[p].mode = "keep" THEN UNCHANGED <<fs, owned>>
       ELSE fs' = fs \ mine /\ owned' = [owned EXCEPT ![p] = @ \ mine]
    /\ IF d[p] < Len(sc[p].docs) THEN d' = [d EXCEPT ![p] = @ + 1] /\ pc' = [pc EXCEPT ![p] = "new"]
       ELSE pc' = [pc EXCEPT ![p] = "exit"] /\ UNCHANGED d
    /\ UNCHANGED <<sc, wd>>
Next == \E p \in Procs : NewEnv(p) \/ InitTestFile(p) \/ Execute(p) \/ DropEnv(p)
Spec == Init /\ [][Next]_vars

Exited(p) == pc[p] = "exit"
Clean == \A p \in Procs : Exited(p) =>
            /\ (sc[p].mode # "keep" => \A x \in fs : x[1] # p \/ x = UserDir(p))
            /\ (sc[p].mode = "workdir" => UserDir(p) \in fs)
            /\ (sc[p].mode = "keep" => owned[p] \subseteq fs)
Separate == \A p, q \in Procs : \A i \in 1..Len(wd[p]), j \in 1..Len(wd[q]) :
               (p # q \/ i # j) /\ sc[p].mode # "workdir" /\ sc[q].mode # "workdir" => wd[p][i] # wd[q][j]

\* (P) over an observation o of real runs (one entry per process):
\*   o[p].left_at_exit / left_later : directories found in the private temp root right after exit / after a grace period
\*   o[p].wd_per_doc : the working directory each document's test cases saw (sequence, "MIXED" if they differ)
\*   o[p].w_kept, o[p].w_extra : W still exists / something scrut created is still inside W
\*   o[p].env_ok : every test case saw the documented variables (see the driver), o[p].fresh_ok: also after a test case unset them
C18ok(s, o) ==
    /\ \A p \in DOMAIN s :
         /\ (s[p].mode # "keep" => o[p].left_at_exit = 0 /\ o[p].left_later = 0)
         /\ (s[p].mode = "keep" => o[p].left_at_exit > 0)
         /\ (s[p].mode = "workdir" => o[p].w_kept /\ ~o[p].w_extra)
         /\ \A i \in 1..Len(o[p].wd_per_doc) : o[p].wd_per_doc[i] # "MIXED"
         /\ o[p].env_ok /\ o[p].fresh_ok
    /\ \A p, q \in DOMAIN s : \A i \in 1..Len(o[p].wd_per_doc), j \in 1..Len(o[q].wd_per_doc) :
         (p # q \/ i # j) /\ s[p].mode # "workdir" /\ s[q].mode # "workdir" => o[p].wd_per_doc[i] # o[q].wd_per_doc[j]
=============================================================================

--------------------------- MODULE MC_ExpectationGrammar ---------------------------
EXTENDS ExpectationGrammar, Json
Emit == PrintT(<<"REPLAY", ToJson([line |-> line, ref |-> ParseRef(line), fail_ok |-> FailAllowed(line)])>>)
=============================================================================

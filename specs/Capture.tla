----------------------------------- MODULE Capture -----------------------------------
(***************************************************************************)
(* C13: what the shell receives and what scrut records.                      *)
(*                                                                         *)
(* Payloads are sequences of tokens:                                        *)
(*   "a" an ordinary byte    "CR"   "LF"   "E" an ANSI escape sequence (ESC [ 1 m)                    *)
(*   "NUL"   "HI" a byte >= 0x80 that is not valid UTF-8 on its own                                   *)
(*   "P:<name>"  the literal text of a template placeholder, e.g. {persist_state}                    *)
(*   "DIVP" the literal divider prefix of the single-script executor, "DIVF" a complete fake divider *)
(*                                                                         *)
(*  (P) Recorded(p, keep, strip): the only documented transformations        *)
(*  (A) CrlfAlgo: the recursive CR LF replacement of src/newline.rs           *)
(*      Substitute: template substitution of src/executors/bash_runner.rs     *)
(*      Script / Split: the divider protocol of bash_script_executor.rs       *)
(***************************************************************************)
EXTENDS Integers, Sequences, FiniteSets, TLC

CONSTANT Tier

-----------------------------------------------------------------------------
(* (P) recorded stream *)
RECURSIVE DropCrBeforeLf(_)
DropCrBeforeLf(p) == IF p = <<>> THEN <<>>
                     ELSE IF Len(p) >= 2 /\ p[1] = "CR" /\ p[2] = "LF" THEN <<"LF">> \o DropCrBeforeLf(SubSeq(p, 3, Len(p)))
                     ELSE <<Head(p)>> \o DropCrBeforeLf(Tail(p))
StripAnsi(p) == SelectSeq(p, LAMBDA t : t # "E")
Recorded(p, keep, strip) ==
    LET a == IF keep THEN p ELSE DropCrBeforeLf(p) IN IF strip THEN StripAnsi(a) ELSE a

(* (A) newline.rs: copy up to the first CR LF; from there on scan left to right and skip the CR of every CR LF pair *)
RECURSIVE FirstCrLf(_, _)
FirstCrLf(p, i) == IF i + 1 > Len(p) THEN 0 ELSE IF p[i] = "CR" /\ p[i + 1] = "LF" THEN i ELSE FirstCrLf(p, i + 1)
RECURSIVE Scan(_, _, _)
Scan(p, i, acc) == IF i > Len(p) THEN acc
                   ELSE IF p[i] = "CR" /\ i + 1 <= Len(p) /\ p[i + 1] = "LF" THEN Scan(p, i + 2, Append(acc, "LF"))
                   ELSE Scan(p, i + 1, Append(acc, p[i]))
CrlfAlgo(p) == LET f == FirstCrLf(p, 1) IN IF f = 0 THEN p ELSE Scan(p, f, SubSeq(p, 1, f - 1))

-----------------------------------------------------------------------------
(* (A) template substitution: the template is a sequence of literal and placeholder tokens; the shell
   expression is user text and may itself contain the text of any placeholder *)
Template == <<"lit:head", "P:state_directory", "lit:trap", "P:excluded_variables", "lit:load", "P:persist_state", "lit:exec", "P:shell_expression">>
Placeholders == {"P:state_directory", "P:name", "P:shell_expression", "P:excluded_variables", "P:persist_state"}
ValueOf(ph, expr) == IF ph = "P:shell_expression" THEN expr ELSE <<"val:" \o ph>>
RECURSIVE ReplaceAll(_, _, _)
ReplaceAll(text, ph, val) == IF text = <<>> THEN <<>>
                             ELSE (IF Head(text) = ph THEN val ELSE <<Head(text)>>) \o ReplaceAll(Tail(text), ph, val)
RECURSIVE SubstituteIn(_, _, _)
SubstituteIn(text, order, expr) == IF order = <<>> THEN text
                                   ELSE SubstituteIn(ReplaceAll(text, Head(order), ValueOf(Head(order), expr)), Tail(order), expr)
\* intended: the user's expression is inserted last, so nothing inside it is ever substituted
IntendedOrder == <<"P:state_directory", "P:name", "P:excluded_variables", "P:persist_state", "P:shell_expression">>
Script(expr) == SubstituteIn(Template, IntendedOrder, expr)
\* the expression arrives verbatim: the script ends with exactly the expression
Verbatim(expr) == LET s == Script(expr) IN Len(s) >= Len(expr) /\ SubSeq(s, Len(s) - Len(expr) + 1, Len(s)) = expr

-----------------------------------------------------------------------------
(* (A) divider protocol of the single-script executor: after each test case a line `DIV k code` is printed;
   the combined output is split again.  "DIV" tokens are <<"DIV", k, code>>; payload tokens are strings. *)
Pay(v) == [t |-> "pay", v |-> v, k |-> 0, code |-> 0]
Div(k, code) == [t |-> "div", v |-> "", k |-> k, code |-> code]       \* (a unique salt is assumed: payload never forges it)
IsDiv(x) == x.t = "div"
RECURSIVE Emitted(_, _)
Emitted(tests, k) == IF k > Len(tests) THEN <<>>
                     ELSE [x \in 1..Len(tests[k].payload) |-> Pay(tests[k].payload[x])]
                          \o <<Div(k, tests[k].code), Pay("LF")>> \o Emitted(tests, k + 1)
\* Split: everything up to a divider belongs to test k; the LF written after the divider is not payload
RECURSIVE Split(_, _)
Split(stream, cur) ==
    IF stream = <<>> THEN <<>>
    ELSE IF IsDiv(Head(stream))
         THEN <<[payload |-> cur, code |-> Head(stream).code, k |-> Head(stream).k]>> \o Split(Tail(Tail(stream)), <<>>)
         ELSE Split(Tail(stream), Append(cur, Head(stream).v))

-----------------------------------------------------------------------------
(* enumeration *)
Basic == {"a", "CR", "LF", "E", "NUL", "HI"}
Specials == {"P:persist_state", "P:excluded_variables", "P:shell_expression", "P:name", "P:state_directory", "DIVP", "DIVF"}
SeqsUpTo(S, n) == UNION {[1..k -> S] : k \in 0..n}
CrlfPayloads == SeqsUpTo({"a", "CR", "LF"}, IF Tier = "quick" THEN 4 ELSE 6)
Payloads == CrlfPayloads \cup SeqsUpTo(Basic, 2)
            \cup {<<"a", s, "a", "LF">> : s \in Specials} \cup {<<s>> : s \in Specials}
Codes == {0, 1, 7, 255}

VARIABLES tests, keep, strip, stream, exec
vars == <<tests, keep, strip, stream, exec>>
Tri == {"unset", "true", "false"}
\* tail = "heredoc": the expression is a here-document written over several document lines and goes through the parser
\* tail = "backslash": the expression, as written in the document, ends in a dangling backslash (harmless for the shell)
T(p, e, c) == [payload |-> p, err |-> e, code |-> c, tail |-> "none"]
Short == {<<>>, <<"a">>, <<"LF">>, <<"a", "LF">>}
Init == /\ exec \in {"md", "cram"}
        /\ \/ \* A: one test case, stdout payloads under every keep_crlf / strip_ansi_escaping setting
              /\ keep \in Tri /\ strip \in Tri /\ stream = "stdout"
              /\ \E p \in Payloads : tests = <<T(p, <<>>, 0)>>
           \/ \* B: both streams, every output_stream setting, every exit code
              /\ keep = "unset" /\ strip = "unset" /\ stream \in {"stdout", "stderr", "combined"}
              /\ \E p \in Short, e \in Short \cup {<<"a", "CR", "LF">>, <<"E", "LF">>}, c \in Codes : tests = <<T(p, e, c)>>
           \/ \* D: the expression ends in a backslash (line continuation onto nothing)
              /\ keep = "unset" /\ strip = "unset" /\ stream = "stdout"
              /\ \E p \in {<<"a", "LF">>, <<"a">>}, p2 \in {<<>>, <<"a", "LF">>} :
                    tests = <<[T(p, <<>>, 0) EXCEPT !.tail = "backslash"], T(p2, <<>>, 0)>>
           \/ \* E: the expression is read from a DOCUMENT (real parser): a here-document whose text lines begin with `> `
              \*    (`$ cat <<EOF` / `> > a` / `> EOF`): the continuation marker is removed once, the rest is verbatim
              /\ keep = "unset" /\ strip = "unset" /\ stream = "stdout"
              /\ \E p \in {<<"GT", "SP", "a", "LF">>, <<"GT", "SP", "GT", "SP", "a", "LF">>, <<"SP", "a", "SP", "SP", "LF">>} :
                    tests = <<[T(p, <<>>, 0) EXCEPT !.tail = "heredoc"]>>
           \/ \* F: the command is cut short by its own or by the document's time limit after it has written something:
              \*    what it wrote until then is recorded (per-process executor)
              /\ exec = "md" /\ keep = "unset" /\ strip = "unset" /\ stream = "stdout"
              /\ \E p \in {<<"a", "LF">>, <<"a">>, <<"a", "LF", "a">>}, h \in {"hang_test", "hang_doc"} :
                    tests = <<[T(p, <<"a", "LF">>, 0) EXCEPT !.tail = h]>>
           \/ \* C: two test cases (the first one possibly without final newline), exit codes per test case
              /\ keep = "unset" /\ strip = "unset" /\ stream \in {"stdout", "combined"}
              /\ \E p1 \in {<<"a">>, <<"a", "LF">>, <<>>, <<"a", "CR">>}, p2 \in {<<"a", "LF">>, <<"LF">>, <<>>}, c1 \in Codes, c2 \in {0, 255} :
                    tests = <<T(p1, <<>>, c1), T(p2, <<"a", "LF">>, c2)>>
           \/ \* G: three test cases; the MIDDLE one writes several lines and leaves the last one unterminated (what the
              \*    single-script executor has buffered when the next divider arrives must go to this test case only)
              /\ keep = "unset" /\ strip = "unset" /\ stream \in {"stdout", "combined"}
              /\ \E p1 \in {<<"a", "LF">>, <<"a">>},
                    p2 \in {<<"a", "LF", "a">>, <<"a", "LF", "a", "LF", "a">>, <<"LF", "a">>, <<"a", "LF", "a", "CR">>, <<"a", "LF", "LF", "a">>},
                    p3 \in {<<"a", "LF">>, <<"a">>, <<>>} :
                    tests = <<T(p1, <<>>, 0), T(p2, <<>>, 0), T(p3, <<>>, 0)>>
Next == UNCHANGED vars
Spec == Init /\ [][Next]_vars

Keep  == IF keep = "unset" THEN exec = "cram" ELSE keep = "true"       \* format default: Cram keeps CR LF
Strip == strip = "true"
\* design checks
CrlfAlgoOK   == \A k \in 1..Len(tests) : CrlfAlgo(tests[k].payload) = DropCrBeforeLf(tests[k].payload)
VerbatimOK   == \A k \in 1..Len(tests) : Verbatim(tests[k].payload)
NoSpecial(p) == \A x \in 1..Len(p) : p[x] \notin {"DIVP", "DIVF"}
DividerOK    == (\A k \in 1..Len(tests) : NoSpecial(tests[k].payload)) =>
                   LET parts == Split(Emitted(tests, 1), <<>>) IN
                   /\ Len(parts) = Len(tests)
                   /\ \A k \in 1..Len(tests) : parts[k].payload = tests[k].payload /\ parts[k].code = tests[k].code /\ parts[k].k = k

\* (P) over an observation: o.out[k], o.err[k] token sequences, o.code[k]
ExpectedOut(k) == IF stream = "combined" THEN Recorded(tests[k].payload \o tests[k].err, Keep, Strip)
                  ELSE Recorded(tests[k].payload, Keep, Strip)
ExpectedErr(k) == IF stream = "combined" THEN <<>> ELSE Recorded(tests[k].err, Keep, Strip)
\* "ANSI escape sequences are removed ONLY when strip_ansi_escaping is set": when it is set, both the stripped and the
\* unstripped stream are acceptable; when it is not set, nothing may be removed
UnstrippedOut(k) == IF stream = "combined" THEN Recorded(tests[k].payload \o tests[k].err, Keep, FALSE) ELSE Recorded(tests[k].payload, Keep, FALSE)
UnstrippedErr(k) == IF stream = "combined" THEN <<>> ELSE Recorded(tests[k].err, Keep, FALSE)
C13ok(o) == /\ o.result = "ok"
            /\ Len(o.out) = Len(tests)
            /\ \A k \in 1..Len(tests) :
                  /\ o.out[k] = ExpectedOut(k) \/ (Strip /\ o.out[k] = UnstrippedOut(k))
                  /\ o.err[k] = ExpectedErr(k) \/ (Strip /\ o.err[k] = UnstrippedErr(k))
                  /\ o.code[k] = (IF tests[k].tail \in {"hang_test", "hang_doc"} THEN -2 ELSE tests[k].code)      \* -2: ran into a time limit
=============================================================================

SPECIFICATION TraceSpec
INVARIANTS Verdicts
POSTCONDITION Accepted
CHECK_DEADLOCK FALSE

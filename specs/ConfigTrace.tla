--------------------------------- MODULE ConfigTrace ---------------------------------
(* (T) layer for C16: each record is one application of the real layering functions (in the call order of the three
   sites) to concrete configurations; TLC judges precedence, associativity and identity on the observed values. *)
EXTENDS ConfigLayers, Json, IOUtils
Rec == ndJsonDeserialize(IOEnv.TRACE)
VARIABLE i
TraceInit == i = 0 /\ cli = Empty /\ tc = Empty /\ doc = Empty /\ fmt = Empty
ToLayer(r) == [scalar |-> [k \in Keys |-> r.scalar[k]], env |-> [e \in EnvVars |-> r.env[e]]]
Load == /\ i < Len(Rec) /\ i' = i + 1
        /\ cli' = ToLayer(Rec[i + 1].cli) /\ tc' = ToLayer(Rec[i + 1].tc)
        /\ doc' = ToLayer(Rec[i + 1].doc) /\ fmt' = ToLayer(Rec[i + 1].fmt)
TraceSpec == TraceInit /\ [][Load]_<<vars, i>>
R == Rec[i]
C16ok == /\ PrecedenceOK(cli, tc, doc, fmt, ToLayer(R.obs.eff))        \* the real effective configuration
         /\ R.obs.associative /\ R.obs.identity /\ R.obs.lists_ok        \* observed on the real merge functions
         /\ (R.obs.e2e = "skip" \/ R.obs.e2e = "ok")                     \* the binary behaves according to the effective value
         /\ NeighbourIndependent(R.obs.e2e_nb)
Verdicts == (i > 0) => (C16ok \/ PrintT(<<"VERDICT", "C16", R.id>>))
Accepted == TLCGet("stats").diameter - 1 = Len(Rec)
=============================================================================

--------------------------------- MODULE CramTrace ---------------------------------
(* (T) layer for C07: each record is one call of the real CramParser::parse on a rendered document, with the
   reference reading CramRef that TLC computed for that document. *)
EXTENDS Naturals, Sequences, Json, IOUtils, TLC

Rec == ndJsonDeserialize(IOEnv.TRACE)
VARIABLE i
TraceInit == i = 0
Load == i < Len(Rec) /\ i' = i + 1
TraceSpec == TraceInit /\ [][Load]_i

R == Rec[i]
TestOK(o, r) == /\ o.cmd = r.t.cmd /\ o.exps = r.t.exps /\ o.code = r.t.code /\ o.line = r.t.line
                /\ (r.hasTitle => o.title = r.t.title)     \* no title line since the previous test: anything accepted
                /\ o.cfg_ok                                 \* Cram defaults: combined output, CRLF kept
C07ok ==
    /\ R.obs.result # "panic"
    /\ (R.obs.result = "ok" /\ ~R.ref.unjudged =>
          /\ ~R.ref.must_err
          /\ Len(R.obs.tests) = Len(R.ref.tests)
          /\ \A x \in 1..Len(R.ref.tests) : TestOK(R.obs.tests[x], R.ref.tests[x]))
Hidden == R.obs.result = "err" /\ ~R.ref.must_err /\ ~R.ref.unjudged /\ Len(R.ref.tests) > 0
Verdicts == (i > 0) => ((C07ok /\ ~Hidden) \/ PrintT(<<"VERDICT", "C07", R.id>>))
Accepted == TLCGet("stats").diameter - 1 = Len(Rec)
=============================================================================

------------------------------ MODULE ExpectationGrammar ------------------------------
(***************************************************************************)
(* C08: the grammar of an expectation line, at token level.                 *)
(*                                                                         *)
(*   <expectation> ::= <expression> | <expression> " (" <kind>? <quantifier>? ")"   (kind or quantifier present) *)
(*                                                                         *)
(* A line is a sequence of tokens:                                          *)
(*   "W" word   "SP" one space   "TAB"   "NBSP"   "LP" (   "RP" )   "X" other punctuation               *)
(*   "BS" backslash   "LB" [   "ST" *   "K:<alias>" a kind alias   "Q:<q>" a quantifier                 *)
(* (P) ParseRef is the documented reading; failure is allowed only for an   *)
(* explicitly marked regex / escaped expression that can be malformed.      *)
(***************************************************************************)
EXTENDS Naturals, Sequences, FiniteSets, TLC

CONSTANT Tier

Aliases == {"equal", "eq", "no-eol", "escaped", "esc", "glob", "gl", "regex", "re"}
Canonical(a) == CASE a \in {"equal", "eq"} -> "equal" [] a = "no-eol" -> "no-eol" [] a \in {"escaped", "esc"} -> "escaped"
                  [] a \in {"glob", "gl"} -> "glob" [] a \in {"regex", "re"} -> "regex"
Quants == {"?", "*", "+"}
KTok(a) == <<"K", a>>
QTok(q) == <<"Q", q>>
IsK(t) == Len(t) = 2 /\ t[1] = "K"
IsQ(t) == Len(t) = 2 /\ t[1] = "Q"
T(name) == <<name>>

\* the documented reading of a token line
EndsWithGroup(l, n) ==   \* the last n tokens are  SP ( ... )  with n - 3 tokens inside
    /\ Len(l) >= n /\ l[Len(l) - n + 1] = T("SP") /\ l[Len(l) - n + 2] = T("LP") /\ l[Len(l)] = T("RP")
Inner(l, n) == SubSeq(l, Len(l) - n + 3, Len(l) - 1)
ParseRef(l) ==
    IF EndsWithGroup(l, 5) /\ IsK(Inner(l, 5)[1]) /\ IsQ(Inner(l, 5)[2])
    THEN [cls |-> "mod", expr |-> SubSeq(l, 1, Len(l) - 5), kind |-> Canonical(Inner(l, 5)[1][2]), quant |-> Inner(l, 5)[2][2]]
    ELSE IF EndsWithGroup(l, 4) /\ IsK(Inner(l, 4)[1])
    THEN [cls |-> "mod", expr |-> SubSeq(l, 1, Len(l) - 4), kind |-> Canonical(Inner(l, 4)[1][2]), quant |-> ""]
    ELSE IF EndsWithGroup(l, 4) /\ IsQ(Inner(l, 4)[1])
    THEN [cls |-> "mod", expr |-> SubSeq(l, 1, Len(l) - 4), kind |-> "equal", quant |-> Inner(l, 4)[1][2]]
    ELSE [cls |-> "equal", expr |-> l, kind |-> "equal", quant |-> ""]

\* can the expression be malformed for its kind?  (then, and only then, a parse error is acceptable)
Risky(e) == \E x \in 1..Len(e) : e[x] \in {T("BS"), T("LB"), T("ST"), T("LP"), T("RP")} \/ IsQ(e[x])
\* `<expr> (escaped) (glob)`: the expression of the glob is itself marked escaped
EndsEscaped(e) == Len(e) >= 4 /\ EndsWithGroup(e, 4) /\ IsK(Inner(e, 4)[1]) /\ Canonical(Inner(e, 4)[1][2]) = "escaped"
FailAllowed(l) == LET p == ParseRef(l) IN
    p.cls = "mod" /\ ((p.kind \in {"regex", "escaped"} /\ Risky(p.expr)) \/ (p.kind = "glob" /\ EndsEscaped(p.expr) /\ Risky(p.expr)))

-----------------------------------------------------------------------------
(* enumeration: prefix + up to two trailing groups from a catalogue of well-formed shapes and near misses *)
RepK == IF Tier = "quick" THEN {"glob", "re", "esc", "eq", "no-eol"} ELSE Aliases
Groups ==
      {<<T("SP"), T("LP"), KTok(k), T("RP")>> : k \in Aliases}                               \* (kind)
 \cup {<<T("SP"), T("LP"), QTok(q), T("RP")>> : q \in Quants}                                \* (q)
 \cup {<<T("SP"), T("LP"), KTok(k), QTok(q), T("RP")>> : k \in RepK, q \in Quants}           \* (kind q)
 \cup { <<T("SP"), T("LP"), T("RP")>>,                                                       \* ()
        <<T("TAB"), T("LP"), KTok("glob"), T("RP")>>, <<T("NBSP"), T("LP"), KTok("glob"), T("RP")>>,   \* other whitespace
        <<T("TAB"), T("LP"), QTok("?"), T("RP")>>,
        <<T("LP"), KTok("glob"), T("RP")>>, <<T("LP"), QTok("*"), T("RP")>>,                 \* no separator
        <<T("SP"), T("LP"), KTok("glob"), QTok("?"), T("RP"), T("X")>>,                      \* something after the group
        <<T("SP"), T("LP"), T("W"), T("RP")>>,                                                \* (word)
        <<T("SP"), T("LP"), KTok("glob"), KTok("glob"), T("RP")>>,                            \* (kind kind)
        <<T("SP"), T("LP"), QTok("?"), QTok("?"), T("RP")>>,                                  \* (q q)
        <<T("SP"), T("LP"), QTok("?"), KTok("glob"), T("RP")>>,                               \* (q kind)
        <<T("SP"), T("LP"), KTok("glob"), T("SP"), T("RP")>>,                                 \* (kind space)
        <<T("SP"), T("LP"), T("SP"), KTok("glob"), T("RP")>>,                                 \* (space kind)
        <<T("SP"), T("SP"), T("LP"), KTok("glob"), T("RP")>>,                                 \* two spaces
        <<T("SP"), T("LP"), KTok("glob"), T("RP"), T("SP")>> }                                \* trailing space
PrefixToks == {T("W"), T("SP"), T("X"), T("BS"), T("LB"), T("ST"), T("LP"), T("RP"), T("TAB")}
Prefixes == UNION {[1..n -> PrefixToks] : n \in 0..(IF Tier = "quick" THEN 2 ELSE 3)}
Lines == {p : p \in Prefixes}
         \cup {p \o g : p \in Prefixes, g \in Groups}
         \cup {p \o g1 \o g2 : p \in {q \in Prefixes : Len(q) <= 1}, g1 \in Groups, g2 \in Groups}

VARIABLE line
Init == line \in Lines
Next == UNCHANGED line
Spec == Init /\ [][Next]_line

\* sanity of the reference: a well-formed final group is always recognised; what precedes it is kept verbatim
RefSanity ==
    /\ \A k \in Aliases : ParseRef(<<T("W"), T("SP"), T("LP"), KTok(k), T("RP")>>) =
                              [cls |-> "mod", expr |-> <<T("W")>>, kind |-> Canonical(k), quant |-> ""]
    /\ ParseRef(<<T("W"), T("SP"), T("LP"), T("RP")>>).cls = "equal"
    /\ ParseRef(line).cls = "equal" => ParseRef(line).expr = line
    /\ ParseRef(line).cls = "mod" => Len(ParseRef(line).expr) < Len(line)
=============================================================================

------------------------------ MODULE DiscoveryProps ------------------------------
(***************************************************************************)
(* Which documents `scrut test <paths...>` finds, with which parser, and    *)
(* how often each is run (src/bin/utils/file_parser.rs: find_and_parse,     *)
(* find_all_test_files, read_test_contents, accept, parser).  Serves C20    *)
(* ("every test case of every given document exactly once ... exit 1 if     *)
(* scrut itself could not do its job").                                     *)
(*                                                                          *)
(* (P) layer: reference semantics by counting paths in the file tree        *)
(*     (Cnt / Full / Core) and the predicate DiscOk over an observed run.   *)
(* (A) layer: the depth-first walk of the code as a machine with one action *)
(*     per branch: ArgMissing, ArgFile, ArgDir, DirFile, DirDir, LeaveDir,  *)
(*     Finish.  The order in which read_dir yields the entries of a         *)
(*     directory is unspecified: DirFile / DirDir pick ANY remaining entry. *)
(*                                                                          *)
(* File tree (fixed skeleton, presence and name classes vary):              *)
(*    root/ a e la->a ld->d1 d1/ b d2/ c h                                  *)
(* Name classes of a file: md markdown t cram txt hidden_md (".x.md")       *)
(*    upper_md ("X.MD") absent.                                             *)
(* Patterns: mdpat  "default" [*.{md,markdown}] | "txt" (--match-markdown   *)
(*    '*.txt' REPLACES the default), crampat "default" [*.{t,cram}] | "txt" *)
(*    | "md" (--match-cram '*.md': such a name matches BOTH patterns).      *)
(* Named behaviours of the code that the documentation does not promise     *)
(* (judged as DRIFT only, never as a violation): a symbolic link INSIDE a   *)
(* walked directory is followed; a hidden file whose name matches is        *)
(* accepted; patterns are case sensitive; a name matching both patterns is  *)
(* a Markdown document; a named file that matches no pattern is silently    *)
(* not a document.                                                          *)
(***************************************************************************)
EXTENDS Naturals, Sequences, FiniteSets, TLC

FileNodes == {"a", "e", "b", "c", "h"}
DirNodes  == {"root", "d1", "d2"}
LinkNodes == {"la", "ld"}
Nodes     == FileNodes \cup DirNodes \cup LinkNodes
Parent    == [a |-> "root", e |-> "root", d1 |-> "root", la |-> "root", ld |-> "root",
              b |-> "d1", d2 |-> "d1", c |-> "d2", h |-> "d2"]
LinkTarget == [la |-> "a", ld |-> "d1"]
Classes   == {"md", "markdown", "t", "cram", "txt", "hidden_md", "upper_md", "absent"}
MdPats    == {"default", "txt"}
CramPats  == {"default", "txt", "md"}
Missing   == "missing"

\* a scenario: name class of every file node, which links exist, the two patterns, the paths given on the command line
ScenarioWF(s) ==
    /\ s.cls \in [FileNodes -> Classes]
    /\ s.links \subseteq LinkNodes
    /\ ("la" \in s.links => s.cls["a"] # "absent")         \* no dangling link
    /\ s.mdpat \in MdPats /\ s.crampat \in CramPats
    /\ Len(s.args) \in 1..3
    /\ \A i \in 1..Len(s.args) : s.args[i] \in Nodes \cup {Missing}

Resolve(n) == IF n \in LinkNodes THEN LinkTarget[n] ELSE n
Present(s, n) == \/ n \in DirNodes
                 \/ n \in FileNodes /\ s.cls[n] # "absent"
                 \/ n \in LinkNodes /\ n \in s.links
Exists(s, x) == x # Missing /\ Present(s, x)
Children(s, d) == {n \in DOMAIN Parent : Parent[n] = d /\ Present(s, n)}

MdMatch(s, c)   == IF s.mdpat = "default" THEN c \in {"md", "markdown", "hidden_md"} ELSE c = "txt"
CramMatch(s, c) == CASE s.crampat = "default" -> c \in {"t", "cram"}
                     [] s.crampat = "txt"     -> c = "txt"
                     [] s.crampat = "md"      -> c \in {"md", "hidden_md"}
ParserOf(s, c)  == IF MdMatch(s, c) THEN "markdown" ELSE IF CramMatch(s, c) THEN "cram" ELSE "none"
Accepted(s, f)  == ParserOf(s, s.cls[f]) # "none"
\* the documentation leaves no doubt about these: exactly one pattern matches, the name is not hidden
Plain(s, f)     == /\ s.cls[f] \notin {"hidden_md", "absent"}
                   /\ MdMatch(s, s.cls[f]) # CramMatch(s, s.cls[f])

\* ---------------------------------------------------------------- (P) reference: number of ways a file is reached
RECURSIVE Cnt(_, _, _, _), SumOver(_, _, _, _)
Cnt(s, n, f, follow) ==
    LET r == Resolve(n) IN
    IF r \in FileNodes THEN (IF r = f THEN 1 ELSE 0)
    ELSE SumOver({k \in Children(s, r) : follow \/ k \notin LinkNodes}, s, f, follow)
SumOver(K, s, f, follow) ==
    IF K = {} THEN 0
    ELSE LET k == CHOOSE x \in K : TRUE IN Cnt(s, k, f, follow) + SumOver(K \ {k}, s, f, follow)

RECURSIVE SumArgs(_, _, _, _)
SumArgs(s, i, f, follow) == IF i = 0 THEN 0
                            ELSE SumArgs(s, i - 1, f, follow) + (IF Exists(s, s.args[i]) THEN Cnt(s, s.args[i], f, follow) ELSE 0)
\* how often the document f is run: links inside directories followed (what the code does) / not followed
Full(s) == [f \in FileNodes |-> IF Accepted(s, f) THEN SumArgs(s, Len(s.args), f, TRUE) ELSE 0]
Core(s) == [f \in FileNodes |-> IF Accepted(s, f) THEN SumArgs(s, Len(s.args), f, FALSE) ELSE 0]
Failing(s) == \E i \in 1..Len(s.args) : ~Exists(s, s.args[i])
AllFileArgs(s) == \A i \in 1..Len(s.args) : Exists(s, s.args[i]) /\ Resolve(s.args[i]) \in FileNodes

\* ---------------------------------------------------------------- (P) predicate on an observed run
\* o.ran  : ids (file node names; anything else: "?") in the order the test cases wrote them to the marker log
\* o.exit : exit status of scrut;  o.nres : number of results in the json rendering (-1: unreadable)
Count(seq, x) == Cardinality({i \in 1..Len(seq) : seq[i] = x})
Restrict(seq, S) == SelectSeq(seq, LAMBDA x : x \in S)
ArgFiles(s) == [i \in 1..Len(s.args) |-> Resolve(s.args[i])]
DiscOk(s, o) ==
    IF Failing(s) THEN o.exit = 1                                \* a path that does not exist: scrut cannot do its job
    ELSE /\ o.exit = 0                                           \* every document passes
         /\ \A f \in FileNodes : Plain(s, f) =>
                /\ Count(o.ran, f) >= Core(s)[f]                 \* every given document is run ...
                /\ Count(o.ran, f) <= Full(s)[f]                 \* ... and not more often than it was given
         /\ o.nres = Len(o.ran)                                  \* one result per executed test case
         /\ AllFileArgs(s) =>                                    \* documents named one by one run in the order given
                LET P == {f \in FileNodes : Plain(s, f)}
                IN Restrict(o.ran, P) = Restrict(ArgFiles(s), P)
\* what the code does, exactly (DRIFT when an observed run differs)
DiscExact(s, o) == IF Failing(s) THEN o.exit = 1
                   ELSE \A f \in FileNodes : Count(o.ran, f) = Full(s)[f]

=============================================================================

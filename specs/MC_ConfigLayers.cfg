SPECIFICATION Spec
INVARIANTS ModelPrecedence Associative Identity ListsAccumulate Emit
CHECK_DEADLOCK FALSE

--------------------------------- MODULE CaptureTrace ---------------------------------
(* (T) layer for C13: each record is one sequence of test cases run through one of the two real executors. *)
EXTENDS Capture, Json, IOUtils
Rec == ndJsonDeserialize(IOEnv.TRACE)
VARIABLE i
TraceInit == i = 0 /\ tests = <<>> /\ keep = "unset" /\ strip = "unset" /\ stream = "stdout" /\ exec = "md"
Load == /\ i < Len(Rec) /\ i' = i + 1
        /\ tests' = Rec[i + 1].tests /\ keep' = Rec[i + 1].keep /\ strip' = Rec[i + 1].strip
        /\ stream' = Rec[i + 1].stream /\ exec' = Rec[i + 1].exec
TraceSpec == TraceInit /\ [][Load]_<<vars, i>>
R == Rec[i]
Verdicts == (i > 0) => (C13ok(R.obs) \/ PrintT(<<"VERDICT", "C13", R.id>>))
Accepted == TLCGet("stats").diameter - 1 = Len(Rec)
=============================================================================

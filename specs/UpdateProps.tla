--------------------------------- MODULE UpdateProps ---------------------------------
(***************************************************************************)
(* C10: `scrut update` on a Markdown document.                               *)
(*                                                                         *)
(* The original document is given by its lines and its segment structure    *)
(* (from specs/MarkdownDoc.tla); every scrut block with a command has an     *)
(* outcome class: "pass" | "output" (changed output) | "code" (changed exit  *)
(* code).  The updated document is observed as a decomposition              *)
(*     chunk0  block1  chunk1  ...  blockK  chunkK                           *)
(* found by a scanner that only knows the chunks of the ORIGINAL: after      *)
(* chunk i-1 the next line must open a block (a fence of n >= 3 backticks    *)
(* followed by the language), which extends to the first line consisting of  *)
(* exactly those n backticks.                                               *)
(***************************************************************************)
EXTENDS Naturals, Sequences, FiniteSets, TLC

\* line ranges of the original: chunks = maximal runs of lines outside scrut blocks
RECURSIVE SegStart(_, _)
SegStart(segs, j) == IF j = 1 THEN 1 ELSE SegStart(segs, j - 1) + segs[j - 1].len
ScrutIdx(segs) == {j \in 1..Len(segs) : segs[j].k = "scrut"}
SortedSeq(S) == LET RECURSIVE F(_)
                    F(T) == IF T = {} THEN <<>> ELSE LET m == CHOOSE x \in T : \A y \in T : x <= y IN <<m>> \o F(T \ {m})
                IN F(S)
Blocks(segs) == SortedSeq(ScrutIdx(segs))
\* chunk c (0-based: before the first block ... after the last block)
ChunkOf(lines, segs, c) ==
    LET bs == Blocks(segs)
        from == IF c = 0 THEN 1 ELSE SegStart(segs, bs[c]) + segs[bs[c]].len
        to   == IF c = Len(bs) THEN Len(lines) ELSE SegStart(segs, bs[c + 1]) - 1
    IN SubSeq(lines, from, to)
OrigBlock(lines, segs, b) == LET j == Blocks(segs)[b] IN SubSeq(lines, SegStart(segs, j), SegStart(segs, j) + segs[j].len - 1)

\* the property over an observation o of the real update:
\*   o.result        "ok" | "err" | "panic"
\*   o.decomposed    the scanner found chunk0 block1 ... (chunks are the original's, byte for byte, in order)
\*   o.blocks[b]     [lang_cfg, comments, body]  of the b-th updated block
\*   o.idempotent    updating the updated document with the same outputs changes nothing
\*   o.same_commands the updated document parses to the same commands as the original
\*   o.reparse_passes every test of the updated document passes on the output it was updated with
IsPrefixSeq(a, b) == Len(a) <= Len(b) /\ SubSeq(b, 1, Len(a)) = a
C10ok(lines, segs, outcomes, o) ==
    LET bs == Blocks(segs) IN
    /\ o.result = "ok"
    /\ o.decomposed                                                         \* (i) everything outside scrut blocks kept
    /\ Len(o.blocks) = Len(bs)                                              \* (ii) number and order of blocks
    /\ \A b \in 1..Len(bs) :
          LET j == bs[b]
              orig == OrigBlock(lines, segs, b)
              nb == o.blocks[b]
              openLine == orig[1]
              body == SubSeq(orig, 2 + segs[j].ncom, Len(orig) - (IF segs[j].term THEN 1 ELSE 0))
          IN /\ nb.lang_cfg = openLine.rest                                 \* language and inline configuration kept
             /\ nb.comments = [x \in 1..segs[j].ncom |-> orig[1 + x].txt]   \* comment lines kept
             \* (iii) a passing test keeps its lines exactly as written
             /\ (segs[j].hascmd /\ outcomes[b] = "pass" => nb.body = [x \in 1..Len(body) |-> body[x].txt])
             \* a block without a command is not a test: it is kept as it is
             /\ (~segs[j].hascmd => nb.body = [x \in 1..Len(body) |-> body[x].txt])
    /\ o.idempotent                                                         \* (iv)
    /\ o.same_commands                                                      \* (v)
    /\ o.reparse_passes
=============================================================================

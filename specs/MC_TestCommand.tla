------------------------------ MODULE MC_TestCommand ------------------------------
(* Scenario families for model checking / generation (TLC only).  The families take a dummy argument so that TLC does
   not evaluate all of them as constants at start-up (that cost 40 s per run). *)
EXTENDS TestCommand, Json

Ids == << <<"d1t1", "d1t2", "d1t3">>, <<"d2t1", "d2t2", "d2t3">>, <<"d3t1", "d3t2", "d3t3">> >>

\* ---- kinds of fast test cases (dur = 0), as functions of the id
Fast(id, beh, code, exp, out, stream, expect) == Tc(id, beh, code, 0, exp, out, stream, expect, None, FALSE, None)
Kind(name, id) ==
    CASE name = "pass"        -> Fast(id, "exit", 0, None, "stdout", "stdout", "match")
      [] name = "pass3"       -> Fast(id, "exit", 3, 3, "stdout", "stdout", "match")
      [] name = "pass255"     -> Fast(id, "exit", 255, 255, "stdout", "stdout", "match")
      [] name = "failout"     -> Fast(id, "exit", 0, None, "stdout", "stdout", "mismatch")
      [] name = "failcode"    -> Fast(id, "exit", 3, None, "stdout", "stdout", "match")
      [] name = "failcodeexp" -> Fast(id, "exit", 0, 3, "stdout", "stdout", "match")
      [] name = "failboth"    -> Fast(id, "exit", 3, None, "stdout", "stdout", "mismatch")
      [] name = "sig_noexp"   -> Fast(id, "signal", 0, None, "none", "stdout", "none")
      [] name = "sig_out"     -> Fast(id, "signal", 0, None, "stdout", "stdout", "match")
      [] name = "err_pass"    -> Fast(id, "exit", 0, None, "both", "stderr", "match")
      [] name = "err_empty"   -> Fast(id, "exit", 0, None, "stdout", "stderr", "none")
      [] name = "err_unexp"   -> Fast(id, "exit", 0, None, "stderr", "stderr", "none")      \* nothing expected, nothing on stdout, text on the chosen stream
      [] name = "comb_pass"   -> Fast(id, "exit", 0, None, "both", "combined", "match")
      [] name = "quiet"       -> Fast(id, "exit", 0, None, "none", "stdout", "none")
      [] name = "unexpected"  -> Fast(id, "exit", 0, None, "stdout", "stdout", "none")
      [] name = "det"         -> Tc(id, "exit", 0, 0, None, "none", "stdout", "none", None, TRUE, None)
      [] name = "skip80"      -> Fast(id, "exit", 80, None, "stdout", "stdout", "match")
\* Cram: the format default is the combined stream
CramKind(name, id) == [Kind(name, id) EXCEPT !.stream = "combined"]

SeqsOf(S, lo, hi) == UNION {[1..n -> S] : n \in lo..hi}
MkTests(di, names) == [x \in 1..Len(names) |-> Kind(names[x], Ids[di][x])]
MkCram(di, names)  == [x \in 1..Len(names) |-> CramKind(names[x], Ids[di][x])]
Md(tests)   == Doc("md", None, None, "no", tests)
Cram(tests) == Doc("cram", None, None, "no", tests)
Plain(docs) == Run(docs, None, <<>>, <<>>, "cli", FALSE)

\* ---- C05
C05Kinds == {"pass", "pass3", "pass255", "failout", "failcode", "failcodeexp", "failboth", "sig_noexp", "sig_out",
             "err_pass", "err_empty", "err_unexp", "comb_pass", "quiet", "unexpected", "det"}
CramC05  == {"pass", "pass3", "failout", "failcode", "failcodeexp", "failboth", "quiet", "unexpected"}
ScenC05(u) == {Plain(<<Md(MkTests(1, names))>>) : names \in SeqsOf(C05Kinds, 1, 3)}
           \cup {Plain(<<Cram(MkCram(1, names))>>) : names \in SeqsOf(CramC05, 1, 2)}

\* the stream comes from the document defaults (defaults.output_stream) for one test case and is written inline - also as
\* plain `stdout` - for its neighbour
FromDoc(tc) == [tc EXCEPT !.sinline = FALSE]
C05DocStream(u) ==
    {Plain(<<[Md(<<FromDoc([Kind(n1, "d1t1") EXCEPT !.stream = sd]), Kind(n2, "d1t2")>>) EXCEPT !.sdef = sd]>>) :
        sd \in {"stderr", "combined"}, n1 \in {"err_pass", "err_unexp", "quiet", "pass"}, n2 \in {"pass", "err_pass", "failout"}}
    \cup {Plain(<<[Md(<<Kind(n2, "d1t1"), FromDoc([Kind(n1, "d1t2") EXCEPT !.stream = sd])>>) EXCEPT !.sdef = sd]>>) :
        sd \in {"stderr", "combined"}, n1 \in {"err_pass", "err_unexp"}, n2 \in {"pass", "comb_pass"}}

\* ---- C14: one slow test case (3 ticks) among three; limits 1 or 6; document limit from front-matter and/or CLI
SlowTc(id, t, stream) == Tc(id, "exit", 0, 3, None, "stdout", stream, "match", t, FALSE, None)
SlowD(id, dur) == [SlowTc(id, None, "stdout") EXCEPT !.dur = dur]
C14Tests(p, t) == [x \in 1..3 |-> IF x = p THEN SlowTc(Ids[1][x], t, "stdout") ELSE Kind("pass", Ids[1][x])]
C14Cram(p)     == [x \in 1..3 |-> IF x = p THEN SlowTc(Ids[1][x], None, "combined") ELSE CramKind("pass", Ids[1][x])]
\* a slow test case whose shell ignores SIGTERM: the limits still bound it
NoTermTc(id, t) == [SlowTc(id, t, "stdout") EXCEPT !.beh = "noterm"]
NoTerm(u) == {Run(<<Doc("md", tfm, None, "no", <<Kind("pass", "d1t1"), NoTermTc("d1t2", t), Kind("pass", "d1t3")>>)>>, None, <<>>, <<>>, "cli", FALSE) :
                  t \in {None, 1}, tfm \in {None, 1}} \ {Run(<<Doc("md", None, None, "no", <<Kind("pass", "d1t1"), NoTermTc("d1t2", None), Kind("pass", "d1t3")>>)>>, None, <<>>, <<>>, "cli", FALSE)}
ScenC14(u) == {Run(<<Doc("md", tfm, None, "no", C14Tests(p, t))>>, tcli, <<>>, <<>>, "cli", FALSE) :
                 p \in 1..3, t \in {None, 1, 6}, tfm \in {None, 0, 1, 6}, tcli \in {None, 0, 1, 6}}
           \* a per-test timeout from the document defaults (defaults.timeout), alone and against an inline one and a document limit
           \cup {Run(<<[Doc("md", tfm, None, "no", C14Tests(p, t)) EXCEPT !.tdef = td]>>, None, <<>>, <<>>, "cli", FALSE) :
                 p \in 1..3, t \in {None, 1, 6}, td \in {1, 6}, tfm \in {None, 1, 6}}
           \* the document limit elapses BETWEEN two commands (scrut waits 2 ticks before the second one)
           \cup {Run(<<Doc("md", tfm, None, "no", <<Kind("pass", "d1t1"), [Kind("pass", "d1t2") EXCEPT !.wait = 2],
                                                      SlowTc("d1t3", None, "stdout")>>)>>, tcli, <<>>, <<>>, "cli", FALSE) :
                 tfm \in {None, 1}, tcli \in {None, 1}}
           \cup {Run(<<Doc("cram", None, None, "no", C14Cram(p))>>, tcli, <<>>, <<>>, "cli", FALSE) :
                 p \in 1..3, tcli \in {None, 1, 6}}
           \* TwoSlow: an earlier slow command (3 ticks) stays inside the document limit of 6 and uses half of it; a later one
           \* (5 ticks) exceeds what is LEFT, with a fast command in between (or not) -- the remaining document time
           \cup {Run(<<Doc("md", tfm, None, "no", tests)>>, tcli, <<>>, <<>>, "cli", FALSE) :
                 tests \in {<<SlowD("d1t1", 3), Kind("pass", "d1t2"), SlowD("d1t3", 5), Kind("pass", "d1t4")>>,
                            <<SlowD("d1t1", 3), SlowD("d1t2", 5), Kind("pass", "d1t3")>>,
                            <<Kind("pass", "d1t1"), SlowD("d1t2", 3), Kind("pass", "d1t3"), Kind("pass", "d1t4"), SlowD("d1t5", 5)>>},
                 tfm \in {None, 6}, tcli \in {None, 6}}

\* ---- C15: the skip code (default 80, document default 7, inline 9) and a decoy (exit 80 where the code is 7)
SkipperTc(id, code, exp, inline) == Tc(id, "exit", code, 0, exp, "stdout", "stdout", "match", None, FALSE, inline)
C15Doc(p, cfg, exp, others) ==
    Doc("md", None, IF cfg \in {"docdef", "decoy", "both", "bothdecoy"} THEN 7 ELSE None, "no",
        [x \in 1..3 |-> IF x = p
            THEN SkipperTc(Ids[1][x], CASE cfg = "def" -> 80 [] cfg = "docdef" -> 7 [] cfg = "inline" -> 9 [] cfg = "decoy" -> 80
                                        [] cfg = "both" -> 9 [] cfg = "bothdecoy" -> 7       \* document default 7 AND inline 9: inline wins
                                        [] cfg = "max" -> 255 [] cfg = "maxdecoy" -> 80,     \* the largest exit code as skip code
                           exp, CASE cfg \in {"inline", "both", "bothdecoy"} -> 9 [] cfg \in {"max", "maxdecoy"} -> 255 [] OTHER -> None)
            ELSE Kind(others[x], Ids[1][x])])
C15Docs(u) == {C15Doc(p, cfg, exp, others) : p \in 0..3, cfg \in {"def", "docdef", "inline", "decoy", "both", "bothdecoy", "max", "maxdecoy"},
                                          exp \in {None, 3, 80}, others \in [1..3 -> {"pass", "failout", "failcode"}]}
Second(name) == Md(<<Kind(name, Ids[2][1])>>)
ScenC15(u) == {Plain(<<dc>>) : dc \in C15Docs(0)}
           \cup {Plain(<<dc, Second(n2)>>) : dc \in C15Docs(0), n2 \in {"pass", "failout"}}
           \cup {Plain(<<Second(n2), [dc EXCEPT !.tests = [x \in 1..3 |-> [dc.tests[x] EXCEPT !.id = Ids[3][x]]]]>>) :
                     dc \in C15Docs(0), n2 \in {"pass", "failout"}}
           \cup {Plain(<<Cram([x \in 1..3 |->
                        IF x = p THEN Tc(Ids[1][x], how, 80, 0, None, "stdout", "combined", "match", None, FALSE, None)
                        ELSE CramKind(names[x], Ids[1][x])])>>) :
                     p \in 0..3, how \in {"exit", "exitscript"}, names \in [1..3 -> {"pass", "failout"}]}
           \* the test case that exits with the skip code (or a passing / failing one before it) has damaged the carrier's state
           \* file: the exit code of the command is still what counts
           \cup {Plain(<<Md(<<[Kind(n1, "d1t1") EXCEPT !.sab = s1], [Kind("skip80", "d1t2") EXCEPT !.sab = ~s1], Kind("pass", "d1t3")>>)>>) :
                     n1 \in {"pass", "failout"}, s1 \in BOOLEAN}
           \* a test case returns the skip code WITHOUT leaving the shared script, a later one ends the script with another
           \* code (`exit 3`): the skip comes first, the document is skipped - not an execution error
           \cup {Plain(<<Cram(pre \o <<Tc("d1t2", "exit", 80, 0, None, "stdout", "combined", "match", None, FALSE, None)>> \o mid
                              \o <<Tc("d1t4", "exitscript", 3, 0, None, "stdout", "combined", "match", None, FALSE, None)>>)>> \o rest) :
                     pre \in {<<>>, <<CramKind("pass", "d1t1")>>}, mid \in {<<>>, <<CramKind("failout", "d1t3")>>},
                     rest \in {<<>>, <<Cram(<<CramKind("pass", "d2t1")>>)>>}}

\* Markdown documents run with --cram-compat: the script executor must honour the Markdown-only ways to set the skip code
Combined(dc) == [dc EXCEPT !.tests = [x \in 1..Len(dc.tests) |-> [dc.tests[x] EXCEPT !.stream = "combined"]]]
C15Compat(u) == {[Plain(<<Combined(C15Doc(p, cfg, exp, others))>>) EXCEPT !.compat = TRUE] :
                  p \in 0..3, cfg \in {"def", "docdef", "inline", "decoy"}, exp \in {None, 80}, others \in {[x \in 1..3 |-> "pass"], [x \in 1..3 |-> "failout"]}}

\* a shell that dies (no exit code) in a document where nothing -- or only a test case that is never reached -- exits with the
\* skip code: the test cases that consequently do not run are not "skipped"
C15Signal(u) == {Plain(<<Md(MkTests(1, names))>>) : names \in {n \in [1..3 -> {"pass", "failout", "sig_noexp", "skip80"}] : \E x \in 1..3 : n[x] = "sig_noexp"}}

\* ---- C20: several documents, shared prepend / append documents, detached, skip, signal, faults, Markdown and Cram
C20Kinds  == {"pass", "failout", "failcode", "det", "skip80", "sig_noexp"}
C20Cram   == {"pass", "failout", "failcode", "skip80"}
MdDocsOf(di)   == {Md(MkTests(di, names)) : names \in SeqsOf(C20Kinds, 1, 2)}
CramDocsOf(di) == {Cram(MkCram(di, names)) : names \in SeqsOf(C20Cram, 1, 2)}
DocsOf(di) == MdDocsOf(di) \cup CramDocsOf(di)
\* shared prepend / append documents have the format of the documents they are added to
Shared(prefix)     == {<<>>, <<Kind("pass", prefix)>>, <<Kind("failout", prefix)>>}
CramShared(prefix) == {<<>>, <<CramKind("pass", prefix)>>, <<CramKind("failout", prefix)>>}
ScenC20(u) == {Run(<<d1>>, None, pre, app, via, FALSE) : d1 \in MdDocsOf(1), pre \in Shared("p1"), app \in Shared("a1"), via \in {"cli", "fm"}}
           \cup {Run(<<d1>>, None, pre, app, "cli", FALSE) : d1 \in CramDocsOf(1), pre \in CramShared("p1"), app \in CramShared("a1")}
           \cup {Run(<<d1, d2>>, None, <<>>, <<>>, "cli", FALSE) : d1 \in DocsOf(1), d2 \in DocsOf(2)}
           \cup {Run(<<d1, Md(MkTests(2, <<n2>>))>>, None, pre, app, via, FALSE) :
                     d1 \in MdDocsOf(1), n2 \in {"pass", "failout"}, pre \in Shared("p1"), app \in Shared("a1"), via \in {"cli", "fm"}}
           \cup {Run(<<d1, Md(MkTests(2, <<"pass">>)), Md(MkTests(3, <<n3>>))>>, None, <<>>, <<>>, "cli", FALSE) :
                     d1 \in DocsOf(1), n3 \in {"pass", "failout"}}
           \* two Markdown documents whose front-matter names DIFFERENT shared documents (each its own, or only one of them)
           \cup {[Run(<<Md(MkTests(1, <<n1>>)), Md(MkTests(2, <<n2>>))>>, None, pre, app, "fm2", FALSE) EXCEPT !.pre2 = pre2, !.app2 = app2] :
                     n1 \in {"pass", "failout"}, n2 \in {"pass", "failcode"},
                     pre \in {<<>>, <<Kind("pass", "p1")>>}, app \in {<<>>, <<Kind("pass", "a1")>>, <<Kind("failout", "a1")>>},
                     pre2 \in {<<>>, <<Kind("pass", "p2")>>, <<Kind("failout", "p2")>>}, app2 \in {<<>>, <<Kind("pass", "a2")>>}}
           \* a directory argument instead of single paths (documents of both formats, a nested directory, other files)
           \cup {[Run(<<d1, d2>>, None, <<>>, <<>>, "cli", FALSE) EXCEPT !.dirarg = TRUE] : d1 \in DocsOf(1), d2 \in DocsOf(2)}
           \cup {[Run(<<d1, Md(MkTests(2, <<"pass">>)), Cram(MkCram(3, <<n3>>))>>, None, <<>>, <<>>, "cli", FALSE) EXCEPT !.dirarg = TRUE] :
                     d1 \in DocsOf(1), n3 \in {"pass", "failout"}}
           \* -P / -A named relative to the current directory while the tested document lies elsewhere
           \cup {[Run(<<d1>>, None, pre, app, "cli", FALSE) EXCEPT !.rel = TRUE] :
                     d1 \in {Md(MkTests(1, <<n1>>)) : n1 \in {"pass", "failout"}}, pre \in Shared("p1"), app \in Shared("a1")}
           \cup {[Run(<<d1>>, None, pre, app, "cli", FALSE) EXCEPT !.rel = TRUE] :
                     d1 \in {Cram(MkCram(1, <<"pass">>))}, pre \in CramShared("p1"), app \in CramShared("a1")}
           \* a document limit that is exceeded (per-document and per-test), alone and followed by another document
           \cup {Run(<<Doc("md", tfm, None, "no", <<Kind("pass", "d1t1"), Tc("d1t2", "exit", 0, 3, None, "none", "stdout", "none", t, FALSE, None)>>)>> \o rest,
                      None, <<>>, <<>>, "cli", FALSE) :
                     tfm \in {None, 1}, t \in {None, 1}, rest \in {<<>>, <<Md(MkTests(2, <<"pass">>))>>}}
           \* faults: an unreadable / unparsable document at position 1 or 2, a shell that does not exist
           \cup {Run(<<[d1 EXCEPT !.fault = f], Md(MkTests(2, <<n2>>))>>, None, <<>>, <<>>, "cli", FALSE) :
                     d1 \in {Md(MkTests(1, <<"pass">>))}, f \in {"unreadable", "unparsable"}, n2 \in {"pass", "failout"}}
           \cup {Run(<<Md(MkTests(1, <<n1>>)), [d2 EXCEPT !.fault = f]>>, None, <<>>, <<>>, "cli", FALSE) :
                     d2 \in {Md(MkTests(2, <<"pass">>))}, f \in {"unreadable", "unparsable"}, n1 \in {"pass", "failout"}}
           \cup {Run(<<Md(MkTests(1, <<n1>>))>>, None, <<>>, <<>>, "cli", TRUE) : n1 \in {"pass", "failout"}}
           \* a given path that does not exist (exit 1, nothing runs); a given file that is no test document by its name (ignored)
           \cup {Run(<<[d1 EXCEPT !.fault = f], Md(MkTests(2, <<n2>>))>>, None, <<>>, <<>>, "cli", FALSE) :
                     d1 \in {Md(MkTests(1, <<"failout">>))}, f \in {"missing", "nomatch"}, n2 \in {"pass", "failout"}}
           \cup {Run(<<Md(MkTests(1, <<n1>>)), [d2 EXCEPT !.fault = f]>>, None, <<>>, <<>>, "cli", FALSE) :
                     d2 \in {Md(MkTests(2, <<"failout">>)), Cram(MkCram(2, <<"failout">>))}, f \in {"missing", "nomatch"}, n1 \in {"pass", "failout"}}
           \cup {Run(<<[d1 EXCEPT !.fault = "nomatch"]>>, None, <<>>, <<>>, "cli", FALSE) : d1 \in {Md(MkTests(1, <<"failout">>))}}

\* one script per document: a command that ends the shell with a code other than the skip code (`exit 3`)
ScriptExit(u) ==
    \* (also with more than 4 KiB of non-ASCII output before the shell ends: the error message carries the output)
    {Plain(<<Cram(<<Tc("d1t1", "exitscript", 3, 0, None, "bigutf8", "combined", "none", None, FALSE, None), CramKind("pass", "d1t2")>>)>>)} \cup
    {Plain(<<Cram([x \in 1..3 |-> IF x = p THEN Tc(Ids[1][x], "exitscript", 3, 0, None, "stdout", "combined", "match", None, FALSE, None)
                                   ELSE CramKind(n, Ids[1][x])])>> \o rest) : p \in 1..3, n \in {"pass", "failout"}, rest \in {<<>>, <<Md(MkTests(2, <<"pass">>))>>}}
    \cup {[Plain(<<Combined(Md([x \in 1..3 |-> IF x = p THEN Tc(Ids[1][x], "exitscript", 3, 0, None, "stdout", "stdout", "match", None, FALSE, None)
                                              ELSE Kind("pass", Ids[1][x])]))>>) EXCEPT !.compat = TRUE] : p \in 1..3}
\* prepended / appended test cases together with a test case that runs into its limit (results must stay aligned)
SharedAndTimeout(u) ==
    {Run(<<Doc("md", tfm, None, "no", <<Kind(n1, "d1t1"), Tc("d1t2", "exit", 0, 3, None, "none", "stdout", "none", t, FALSE, None), Kind("pass", "d1t3")>>)>>,
         None, pre, app, via, FALSE) :
        n1 \in {"pass", "failcode", "failout"}, tfm \in {None}, t \in {1},
        pre \in {<<Kind("pass", "p1")>>, <<Kind("failout", "p1")>>}, app \in {<<>>, <<Kind("pass", "a1")>>}, via \in {"cli", "fm"}}
\* shared documents without any timeout: results and outputs must stay aligned in the branch for completed documents too
SharedPlain(u) ==
    {Run(<<Doc("md", None, None, "no", <<Kind(n1, "d1t1"), Kind(n2, "d1t2")>>)>>, None, pre, app, via, FALSE) :
        n1 \in {"pass", "failcode", "failout"}, n2 \in {"pass", "failcode", "pass3"},
        pre \in {<<>>, <<Kind("pass", "p1")>>}, app \in {<<>>, <<Kind("failcode", "a1")>>, <<Kind("pass", "a1")>>}, via \in {"cli", "fm"}}
\* the command line limit together with shared documents given on the command line
LimitAndShared(u) ==
    {Run(<<Doc("md", tfm, None, "no", C14Tests(p, None))>>, tcli, pre, app, "cli", FALSE) :
        p \in {1, 3}, tfm \in {None, 1}, tcli \in {0, 1},
        pre \in {<<>>, <<Kind("pass", "p1")>>}, app \in {<<>>, <<Kind("pass", "a1")>>}} \ 
    {Run(<<Doc("md", tfm, None, "no", C14Tests(p, None))>>, tcli, <<>>, <<>>, "cli", FALSE) : p \in {1, 3}, tfm \in {None, 1}, tcli \in {0, 1}}
\* a detached test case (no result of its own) before a test case that cuts the document short: results must stay aligned
CutTc(x, id) == CASE x = "slow" -> Tc(id, "exit", 0, 3, None, "none", "stdout", "none", 1, FALSE, None)
                  [] OTHER -> Kind(x, id)
DetachedAndCut(cuts) ==
    {Run(<<Doc("md", None, None, "no", tests)>>, None, <<>>, <<>>, "cli", FALSE) :
        tests \in UNION {{<<Kind("det", "d1t1"), CutTc(x, "d1t2"), Kind("pass", "d1t3")>>,
                          <<Kind(n1, "d1t1"), Kind("det", "d1t2"), CutTc(x, "d1t3")>>} : x \in cuts, n1 \in {"pass", "failout"}}}
Scenarios == CASE Focus = "C05" -> C05DocStream(0) \cup ScenC05(0) \cup SharedAndTimeout(0) \cup DetachedAndCut({"slow", "sig_noexp", "failcode"}) \cup SharedPlain(0)
               [] Focus = "C14" -> ScenC14(0) \cup DetachedAndCut({"slow"}) \cup LimitAndShared(0) \cup NoTerm(0) [] Focus = "C15" -> ScenC15(0) \cup DetachedAndCut({"skip80", "slow"}) \cup C15Compat(0) \cup C15Signal(0)
               [] Focus = "C20" -> ScenC20(0) \cup SharedAndTimeout(0) \cup DetachedAndCut({"slow", "sig_noexp", "skip80", "failout"}) \cup ScriptExit(0)

Init == /\ sc \in Scenarios
        /\ d = 1 /\ k = 1 /\ clock = 0 /\ lim = None /\ isGlobal = FALSE /\ status = "-"
        /\ outs = [i \in 1..Len(sc.docs) |-> <<>>]
        /\ res = [i \in 1..Len(sc.docs) |-> <<>>]
        /\ ran = [i \in 1..Len(sc.docs) |-> <<>>]
        /\ wall = [i \in 1..Len(sc.docs) |-> 0]
        /\ exit = None /\ pc = "start"
Spec == Init /\ [][Next]_vars
\* liveness: whatever the commands do (hang, die, detach, skip), the run ends -- checked under weak fairness of the steps
FairSpec == Spec /\ WF_vars(Next)
Terminates == <>Done

Emit == Done => PrintT(<<"REPLAY", ToJson([sc |-> sc, predict |-> ModelObs])>>)
=============================================================================

SPECIFICATION TraceSpec
CONSTRAINT Progress
INVARIANTS AllDone
POSTCONDITION Accepted
CHECK_DEADLOCK FALSE

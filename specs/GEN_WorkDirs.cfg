SPECIFICATION Spec
CONSTANTS
  NP = 1
  Full = TRUE
INVARIANTS Clean Separate Emit
CHECK_DEADLOCK FALSE

----------------------------------- MODULE Render -----------------------------------
(***************************************************************************)
(* C19: renderers.                                                          *)
(*                                                                         *)
(* (A) The hunk assembler of the `diff` renderer (UnifiedDiff::render in    *)
(* src/renderers/diff.rs) runs over a finished diff result `out` of the     *)
(* matcher (specs/DiffAlgo.tla): consecutive unmatched expectations and     *)
(* unexpected lines are gathered into hunks that are flushed at the next    *)
(* matched expectation, when unexpected lines follow unmatched ones, and at *)
(* the end.  (P) every unmatched expectation and every unexpected line of   *)
(* the result appears in exactly one hunk, in order.                        *)
(*                                                                         *)
(* The composed machine is: DiffAlgo until done, then the assembler.  So    *)
(* "every diff shape" below means every shape the matcher can produce       *)
(* within the bound.                                                        *)
(***************************************************************************)
EXTENDS DiffAlgo

VARIABLES ri,          \* next entry of `out` to render (1-based); 0 while the matcher is still running
          us, ul,      \* unmatched_start (0 = None), unmatched expectations gathered
          xs, xl,      \* unexpected_start (0 = None), unexpected lines gathered
          hunks,       \* flushed hunks: [minus |-> seq of expectation indices, plus |-> seq of line numbers]
          eidx         \* "expectation_index" of the renderer
rvars == <<ri, us, ul, xs, xl, hunks, eidx>>
allvars == <<vars, rvars>>

RInit == Init /\ ri = 0 /\ us = 0 /\ ul = <<>> /\ xs = 0 /\ xl = <<>> /\ hunks = <<>> /\ eidx = 0

Matcher == Next /\ UNCHANGED rvars
StartRender == pc = "done" /\ ri = 0 /\ ri' = 1 /\ UNCHANGED <<vars, us, ul, xs, xl, hunks, eidx>>

Pending == us # 0 \/ xs # 0
Flushed(h) == IF Pending THEN Append(h, [minus |-> ul, plus |-> xl]) ELSE h

RMatched ==
    /\ ri >= 1 /\ ri <= Len(out) /\ out[ri].t = "M"
    /\ eidx' = out[ri].e
    /\ hunks' = Flushed(hunks) /\ us' = 0 /\ xs' = 0 /\ ul' = <<>> /\ xl' = <<>>
    /\ ri' = ri + 1 /\ UNCHANGED vars
RUnmatched ==
    /\ ri >= 1 /\ ri <= Len(out) /\ out[ri].t = "U"
    /\ eidx' = out[ri].e
    /\ us' = (IF us = 0 THEN out[ri].e ELSE us) /\ ul' = Append(ul, out[ri].e)
    /\ ri' = ri + 1 /\ UNCHANGED <<vars, xs, xl, hunks>>
RUnexpected ==
    /\ ri >= 1 /\ ri <= Len(out) /\ out[ri].t = "X"
    /\ LET xs1 == IF xs = 0 THEN eidx + 1 ELSE xs      \* + 1: 0 must stay "None" in this encoding
           xl1 == xl \o out[ri].ls
       IN IF us # 0
          THEN \* unexpected lines directly after unmatched expectations close the hunk
               /\ hunks' = Append(hunks, [minus |-> ul, plus |-> xl1])
               /\ us' = 0 /\ xs' = 0 /\ ul' = <<>> /\ xl' = <<>>
          ELSE /\ xs' = xs1 /\ xl' = xl1 /\ UNCHANGED <<us, ul, hunks>>
    /\ ri' = ri + 1 /\ UNCHANGED <<vars, eidx>>
RFinal ==
    /\ ri = Len(out) + 1
    /\ hunks' = Flushed(hunks) /\ us' = 0 /\ xs' = 0 /\ ul' = <<>> /\ xl' = <<>>
    /\ ri' = ri + 1 /\ UNCHANGED <<vars, eidx>>

RNext == Matcher \/ StartRender \/ RMatched \/ RUnmatched \/ RUnexpected \/ RFinal
RSpec == RInit /\ [][RNext]_allvars

RDone == ri = Len(out) + 2

RECURSIVE CatMinus(_), CatPlus(_)
CatMinus(h) == IF h = <<>> THEN <<>> ELSE Head(h).minus \o CatMinus(Tail(h))
CatPlus(h)  == IF h = <<>> THEN <<>> ELSE Head(h).plus \o CatPlus(Tail(h))
UnmatchedOf(o) == LET u == SelectSeq(o, LAMBDA x : x.t = "U") IN [i \in 1..Len(u) |-> u[i].e]
RECURSIVE UnexpectedOf(_)
UnexpectedOf(o) == IF o = <<>> THEN <<>> ELSE (IF Head(o).t = "X" THEN Head(o).ls ELSE <<>>) \o UnexpectedOf(Tail(o))

\* (P) every difference shown exactly once, in order; no empty hunk; no hunk at all for a result without differences
ShowsAll == RDone =>
    /\ CatMinus(hunks) = UnmatchedOf(out)
    /\ CatPlus(hunks) = UnexpectedOf(out)
    /\ \A i \in 1..Len(hunks) : hunks[i].minus # <<>> \/ hunks[i].plus # <<>>
    /\ (~HasDiff => hunks = <<>>)
=============================================================================

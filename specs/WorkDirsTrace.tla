--------------------------------- MODULE WorkDirsTrace ---------------------------------
(* (T) layer for C18: each record is one experiment: 1..3 real scrut processes started at the same time under a private
   temporary root, with directory snapshots and the environment every test case saw. *)
EXTENDS Naturals, Sequences, FiniteSets, Json, IOUtils, TLC
CONSTANTS NP, Full
VARIABLES sc, fs, pc, d, owned, wd
INSTANCE WorkDirs
Rec == ndJsonDeserialize(IOEnv.TRACE)
VARIABLE i
TraceInit == i = 0 /\ sc = <<>> /\ fs = {} /\ pc = <<>> /\ d = <<>> /\ owned = <<>> /\ wd = <<>>
Load == i < Len(Rec) /\ i' = i + 1 /\ UNCHANGED <<sc, fs, pc, d, owned, wd>>
TraceSpec == TraceInit /\ [][Load]_<<i, sc, fs, pc, d, owned, wd>>
R == Rec[i]
Verdicts == (i > 0) => (C18ok(R.sc, R.obs) \/ PrintT(<<"VERDICT", "C18", R.id>>))
Accepted == TLCGet("stats").diameter - 1 = Len(Rec)
=============================================================================

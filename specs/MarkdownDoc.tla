--------------------------------- MODULE MarkdownDoc ---------------------------------
(***************************************************************************)
(* C06 (and the document side of C10): Markdown test documents.             *)
(*                                                                         *)
(* A document is a sequence of *segments* (prose line, front-matter,        *)
(* verbatim code block, scrut test block); each segment renders to lines.   *)
(* Lines carry their text and their context-free lexical class.            *)
(*                                                                         *)
(*  (P) MdRef   : declarative reading of the segment list -> expected tests  *)
(*  (A) MdTok   : the line-by-line tokenizer of src/parsers/markdown.rs      *)
(*                (modes top / fm / verbatim / comments / code) with the      *)
(*                end-of-input branches made explicit                        *)
(*  MC: on every document in the bound the machine yields exactly MdRef.     *)
(***************************************************************************)
EXTENDS Naturals, Sequences, FiniteSets, TLC

CONSTANT Tier

-----------------------------------------------------------------------------
(* lines: [txt, lex, n, lang, cfg, arg]
   lex : "blank" | "title" (paragraph or header line) | "text" (other prose) | "dash" (`---`)
         | "fence" (n backticks, language `lang`, inline config `cfg`)
         | "dollar" ($ arg) | "gt" (> arg) | "hash" (# arg) | "code" ([arg]) | "plain" (inside blocks)  *)
L(txt, lex, n, lang, cfg, arg) == [txt |-> txt, lex |-> lex, n |-> n, lang |-> lang, cfg |-> cfg, arg |-> arg]
Blank      == L("", "blank", 0, "", "", "")
WsOnly     == L("  ", "blank", 0, "", "", "")          \* blanks only: an empty line for every purpose (no content has started)
Para       == L("Some words", "title", 0, "", "", "Some words")
ParaU      == L("@P@bung macht", "title", 0, "", "", "@P@bung macht")     \* a paragraph whose first letter is not ASCII ("@P@" is rendered as U-umlaut)
Header     == L("# A Title", "title", 0, "", "", "A Title")
Item       == L("- item", "text", 0, "", "", "")
Tick1      == L("`x` rest", "text", 0, "", "", "")
Tick2      == L("``x`` rest", "text", 0, "", "", "")
Rule       == L("---", "dash", 0, "", "", "")
Fence(n)   == L(IF n = 3 THEN "```" ELSE "````", "fence", n, "", "", "")
Open(n, lang, cfg) ==
    L((IF n = 3 THEN "```" ELSE "````") \o lang \o (IF cfg = "" THEN "" ELSE " " \o cfg), "fence", n, lang, cfg, "")
Cmd(a)     == L("$ " \o a, "dollar", 0, "", "", a)
Cont(a)    == L("> " \o a, "gt", 0, "", "", a)
Hash(a)    == L("# " \o a, "hash", 0, "", "", a)
Code(a)    == L("[" \o a \o "]", "code", 0, "", "", a)
Plain(a)   == L(a, "plain", 0, "", "", a)
Yaml       == L("total_timeout: 5s", "plain", 0, "", "", "")

-----------------------------------------------------------------------------
(* segments *)
\* cn = number of backticks of the closing fence (a closing fence may be longer than the opening one)
Prose(l)                      == [k |-> "prose", lines |-> <<l>>, term |-> TRUE, n |-> 0, cn |-> 0, cfg |-> "", lang |-> "", com |-> <<>>]
FrontMatter(term)             == [k |-> "fm", lines |-> <<Yaml>>, term |-> term, n |-> 0, cn |-> 0, cfg |-> "", lang |-> "", com |-> <<>>]
Verbatim(n, lang, body, term) == [k |-> "verb", lines |-> body, term |-> term, n |-> n, cn |-> n, cfg |-> "", lang |-> lang, com |-> <<>>]
Scrut(n, cfg, com, body, term) == [k |-> "scrut", lines |-> body, term |-> term, n |-> n, cn |-> n, cfg |-> cfg, lang |-> "scrut", com |-> com]
LongClose(s) == [s EXCEPT !.cn = 4]

RenderSeg(s) ==
    CASE s.k = "prose" -> s.lines
      [] s.k = "fm"    -> <<Rule>> \o s.lines \o (IF s.term THEN <<Rule>> ELSE <<>>)
      [] s.k = "verb"  -> <<Open(s.n, s.lang, "")>> \o s.lines \o (IF s.term THEN <<Fence(s.cn)>> ELSE <<>>)
      [] s.k = "scrut" -> <<Open(s.n, s.lang, s.cfg)>> \o s.com \o s.lines \o (IF s.term THEN <<Fence(s.cn)>> ELSE <<>>)

RECURSIVE RenderDoc(_)
RenderDoc(doc) == IF doc = <<>> THEN <<>> ELSE RenderSeg(Head(doc)) \o RenderDoc(Tail(doc))

-----------------------------------------------------------------------------
(* body of a scrut block -> (command lines, expectation lines, exit code, offset of the `$` line).
   The first line must be the `$` command; `>` lines directly after it continue it; everything else,
   whatever it looks like, is an expectation, except `[n]` which is the exit code. *)
RECURSIVE ContLen(_, _)
ContLen(body, i) == IF i <= Len(body) /\ body[i].lex = "gt" THEN 1 + ContLen(body, i + 1) ELSE 0
\* the command is the FIRST `$` line of the block; lines before it (long-standing behaviour: e.g. an empty line a writer
\* left after the comments) are expectation lines that come first
CmdIdx(body) == LET S == {x \in 1..Len(body) : body[x].lex = "dollar"} IN
                IF S = {} THEN 0 ELSE CHOOSE x \in S : \A y \in S : x <= y
HasCmd(body)  == CmdIdx(body) > 0
\* an inline configuration whose value cannot be read (not a duration): the document has to be rejected, the written
\* configuration must not be dropped silently
BadCfg == "{timeout: 3 ticks}"
HasPre(body)  == CmdIdx(body) > 1
CmdLines(body) == [x \in 1..(1 + ContLen(body, CmdIdx(body) + 1)) |-> body[CmdIdx(body) - 1 + x].arg]
RestOf(body)  == SubSeq(body, CmdIdx(body) + 1 + ContLen(body, CmdIdx(body) + 1), Len(body))
PreOf(body)   == SubSeq(body, 1, CmdIdx(body) - 1)
ExpLines(body) == LET e == PreOf(body) \o SelectSeq(RestOf(body), LAMBDA l : l.lex # "code") IN [x \in 1..Len(e) |-> e[x].txt]
Codes(body)   == SelectSeq(RestOf(body), LAMBDA l : l.lex = "code")

-----------------------------------------------------------------------------
(* (P) reference: fold over the segments.
   st = [ln: lines consumed so far, run: current run of title lines, title: title set for the next test,
         fresh: a title line was seen since the last test, tests, must_err: only an error is acceptable,
         may_err: an error is acceptable] *)
Test(cmd, exps, code, cfg, line, titles) ==
    [cmd |-> cmd, exps |-> exps, code |-> code, cfg |-> cfg, line |-> line, titles |-> titles]

RefStep(st, s, isFirst, isLast, laterTest) ==
    LET len == Len(RenderSeg(s)) IN
    CASE s.k = "prose" ->
            LET l == s.lines[1] IN
            IF l.lex = "title"
            THEN [st EXCEPT !.ln = @ + 1, !.run = Append(@, l.arg), !.fresh = TRUE,
                            !.title = Append(st.run, l.arg)]
            ELSE [st EXCEPT !.ln = @ + 1, !.run = <<>>]
      [] s.k = "fm" ->
            \* a front-matter that is never closed must be reported when tests follow it
            [st EXCEPT !.ln = @ + len, !.must_err = @ \/ (~s.term /\ laterTest), !.may_err = @ \/ ~s.term]
      [] s.k = "verb" ->
            \* a code block without a language is rejected by scrut (documented error)
            [st EXCEPT !.ln = @ + len, !.may_err = @ \/ s.lang = "" \/ ~s.term]
      [] s.k = "scrut" ->
            IF HasCmd(s.lines)
            THEN [st EXCEPT !.ln = @ + len, !.run = <<>>, !.fresh = FALSE, !.title = <<>>,
                            !.may_err = @ \/ Len(Codes(s.lines)) > 1 \/ ~s.term \/ HasPre(s.lines) \/ s.cfg = BadCfg,
                            !.must_err = @ \/ Len(Codes(s.lines)) > 1 \/ s.cfg = BadCfg,
                            !.tests = Append(@, Test(CmdLines(s.lines), ExpLines(s.lines),
                                                     IF Len(Codes(s.lines)) = 1 THEN Codes(s.lines)[1].arg ELSE "",
                                                     s.cfg, st.ln + 1 + Len(s.com) + CmdIdx(s.lines),
                                                     \* acceptable titles: the run joined / its last line; "" too when
                                                     \* no title line was seen since the previous test
                                                     [run |-> st.title, fresh |-> st.fresh]))]
            ELSE \* no `$` line: expectations without a command are an error; an empty block is no test
                 [st EXCEPT !.ln = @ + len, !.may_err = TRUE, !.must_err = @ \/ Len(s.lines) > 0]

RECURSIVE RefFold(_, _, _, _)
RefFold(st, doc, i, n) ==
    IF i > n THEN st
    ELSE RefFold(RefStep(st, doc[i], i = 1, i = n,
                         \E j \in (i + 1)..n : doc[j].k = "scrut" /\ HasCmd(doc[j].lines)), doc, i + 1, n)

\* the document configuration is read iff there is a (terminated) front-matter
HasFm(doc) == \E x \in 1..Len(doc) : doc[x].k = "fm" /\ doc[x].term
MdRef(doc) == RefFold([ln |-> 0, run |-> <<>>, title |-> <<>>, fresh |-> FALSE, tests |-> <<>>,
                       must_err |-> FALSE, may_err |-> FALSE], doc, 1, Len(doc))

-----------------------------------------------------------------------------
(* (A) the tokenizer machine over the rendered lines *)
VARIABLES doc, lines, pos, mode, fence, cur, curcfg, curcom, startln, run, title, fresh, tests, err
vars == <<doc, lines, pos, mode, fence, cur, curcfg, curcom, startln, run, title, fresh, tests, err>>

AtEnd == pos > Len(lines)
Line  == lines[pos]
OpensFence(l) == l.lex = "fence"        \* NOT a prose line that merely starts with one or two backticks
ClosesFence(l) == l.lex = "fence" /\ l.n >= fence /\ l.lang = "" /\ l.cfg = ""

Consume == pos' = pos + 1

\* the front-matter may be preceded by empty / blank-only lines: it opens as long as no content has started
NoContentBefore == \A x \in 1..(pos - 1) : lines[x].lex = "blank"
TopFrontMatter == mode = "top" /\ ~AtEnd /\ NoContentBefore /\ Line.lex = "dash"
                  /\ mode' = "fm" /\ Consume
                  /\ UNCHANGED <<doc, lines, fence, cur, curcfg, curcom, startln, run, title, fresh, tests, err>>
TopLine ==
    /\ mode = "top" /\ ~AtEnd /\ ~(NoContentBefore /\ Line.lex = "dash") /\ ~OpensFence(Line)
    /\ IF Line.lex = "title"
       THEN run' = Append(run, Line.arg) /\ title' = Append(run, Line.arg) /\ fresh' = TRUE
       ELSE run' = <<>> /\ UNCHANGED <<title, fresh>>
    /\ Consume
    /\ UNCHANGED <<doc, lines, mode, fence, cur, curcfg, curcom, startln, tests, err>>
\* the languages that mark a test block are a parameter of scrut (--markdown-languages); here: scrut and sh
TestLangs == {"scrut", "sh"}
OpenVerbatim == mode = "top" /\ ~AtEnd /\ OpensFence(Line) /\ Line.lang \notin TestLangs
                /\ mode' = "verb" /\ fence' = Line.n /\ Consume
                /\ err' = (err \/ Line.lang = "")                \* documented: language is mandatory
                /\ UNCHANGED <<doc, lines, cur, curcfg, curcom, startln, run, title, fresh, tests>>
OpenTest == mode = "top" /\ ~AtEnd /\ OpensFence(Line) /\ Line.lang \in TestLangs
            /\ mode' = "comments" /\ fence' = Line.n /\ curcfg' = Line.cfg /\ cur' = <<>> /\ curcom' = 0
            /\ Consume
            /\ UNCHANGED <<doc, lines, startln, run, title, fresh, tests, err>>
FmLine == mode = "fm" /\ ~AtEnd /\ Line.lex # "dash" /\ Consume
          /\ UNCHANGED <<doc, lines, mode, fence, cur, curcfg, curcom, startln, run, title, fresh, tests, err>>
FmClose == mode = "fm" /\ ~AtEnd /\ Line.lex = "dash" /\ mode' = "top" /\ Consume
           /\ UNCHANGED <<doc, lines, fence, cur, curcfg, curcom, startln, run, title, fresh, tests, err>>
VerbLine == mode = "verb" /\ ~AtEnd /\ ~ClosesFence(Line) /\ Consume
            /\ UNCHANGED <<doc, lines, mode, fence, cur, curcfg, curcom, startln, run, title, fresh, tests, err>>
VerbClose == mode = "verb" /\ ~AtEnd /\ ClosesFence(Line) /\ mode' = "top" /\ Consume
             /\ UNCHANGED <<doc, lines, fence, cur, curcfg, curcom, startln, run, title, fresh, tests, err>>
Comment == mode = "comments" /\ ~AtEnd /\ Line.lex = "hash" /\ curcom' = curcom + 1 /\ Consume
           /\ UNCHANGED <<doc, lines, mode, fence, cur, curcfg, startln, run, title, fresh, tests, err>>
StartCode == mode = "comments" /\ (IF AtEnd THEN TRUE ELSE Line.lex # "hash") /\ mode' = "code" /\ startln' = pos
             /\ UNCHANGED <<doc, lines, pos, fence, cur, curcfg, curcom, run, title, fresh, tests, err>>
CodeLine == mode = "code" /\ ~AtEnd /\ ~ClosesFence(Line) /\ cur' = Append(cur, Line) /\ Consume
            /\ UNCHANGED <<doc, lines, mode, fence, curcfg, curcom, startln, run, title, fresh, tests, err>>

\* the end of a test block: by its closing fence, or -- read to the end -- by the end of the document
EndTest ==
    /\ mode = "code" /\ (IF AtEnd THEN TRUE ELSE ClosesFence(Line))
    /\ IF HasCmd(cur)
       THEN /\ tests' = Append(tests, Test(CmdLines(cur), ExpLines(cur),
                                        IF Len(Codes(cur)) = 1 THEN Codes(cur)[1].arg ELSE "", curcfg, startln + CmdIdx(cur) - 1,
                                        [run |-> title, fresh |-> fresh]))
            /\ err' = (err \/ Len(Codes(cur)) > 1 \/ curcfg = BadCfg)
            /\ run' = <<>> /\ title' = <<>> /\ fresh' = FALSE
       ELSE /\ err' = (err \/ Len(cur) > 0)
            /\ UNCHANGED <<tests, run, title, fresh>>
    /\ mode' = "top" /\ pos' = IF AtEnd THEN pos ELSE pos + 1
    /\ UNCHANGED <<doc, lines, fence, cur, curcfg, curcom, startln>>

\* end of input inside front-matter / a verbatim block: reported when something would be hidden, else read to end
EofInFrontMatter == mode = "fm" /\ AtEnd /\ mode' = "done" /\ err' = TRUE
                    /\ UNCHANGED <<doc, lines, pos, fence, cur, curcfg, curcom, startln, run, title, fresh, tests>>
EofInVerbatim == mode = "verb" /\ AtEnd /\ mode' = "done"
                 /\ UNCHANGED <<doc, lines, pos, fence, cur, curcfg, curcom, startln, run, title, fresh, tests, err>>
Eof == mode = "top" /\ AtEnd /\ mode' = "done"
       /\ UNCHANGED <<doc, lines, pos, fence, cur, curcfg, curcom, startln, run, title, fresh, tests, err>>

Next == TopFrontMatter \/ TopLine \/ OpenVerbatim \/ OpenTest \/ FmLine \/ FmClose \/ VerbLine \/ VerbClose
        \/ Comment \/ StartCode \/ CodeLine \/ EndTest \/ EofInFrontMatter \/ EofInVerbatim \/ Eof

-----------------------------------------------------------------------------
(* enumeration of documents *)
Bodies == { <<Cmd("c1")>>,
            <<Cmd("c1"), Cont("c2")>>,
            <<Cmd("c1"), Plain("out1")>>,
            <<Cmd("c1"), Plain("out1"), Code("3")>>,
            <<Cmd("c1"), Cmd("x")>>,                       \* `$ x` after the command is output
            <<Cmd("c1"), Plain("out1"), Cont("y")>>,       \* `> y` after output is output
            <<Cmd("c1"), Code("3"), Cont("y")>>,           \* ... also directly after the exit code line
            <<Cmd("c1"), Plain("[+2]"), Plain("[3] x"), Code("3")>>,
            <<Blank, Cmd("c1"), Plain("out1")>>,           \* an empty line before the command
            <<Cmd("c1"), Plain("out1"), Blank, Blank>>,    \* empty lines at the end of the output       \* only unsigned digits in brackets are an exit code
            <<Cmd("c1"), Hash("x"), Blank, Tick1>>,        \* `# x`, an empty line, a backtick line as output
            <<Cmd("c1"), Cont("c2"), Plain("out1 (glob)"), Plain("out2 (?)")>>,
            <<Plain("out only")>>,                        \* no command: error
            <<>> }                                        \* empty block
ProseLines == {Blank, WsOnly, Para, ParaU, Header, Item, Tick1, Tick2, Rule}
ProseSegs  == {Prose(l) : l \in ProseLines}
VerbSegs   == {Verbatim(3, "bash", b, t) : b \in {<<>>, <<Plain("echo")>>, <<Cmd("not a test")>>}, t \in BOOLEAN}
              \cup {Verbatim(4, "markdown", b, t) :
                        b \in {<<>>, <<Plain("echo")>>, <<Open(3, "scrut", ""), Cmd("x"), Fence(3)>>}, t \in BOOLEAN}
              \cup {Verbatim(3, "", <<Plain("echo")>>, TRUE)}
              \* an info string with multi-byte characters followed by `{` ("@U@" is rendered as two CJK characters)
              \cup {Verbatim(3, "@U@{a}", <<Plain("echo")>>, TRUE)}
ScrutSegs  == {Scrut(n, "", <<>>, b, TRUE) : n \in {3, 4}, b \in Bodies}
              \cup {Scrut(3, cfg, com, <<Cmd("c1"), Plain("out1")>>, t) :
                        \* (an inline configuration is kept as written, including blanks inside quoted values)
                        cfg \in {"", "{timeout: 3s}", "{environment: {A: \"x  y\"}}", BadCfg}, com \in {<<>>, <<Hash("a comment")>>}, t \in BOOLEAN}
              \cup {Scrut(4, "", <<>>, <<Cmd("c1"), Fence(3), Plain("inner"), Fence(3)>>, TRUE),
                    \* an expectation that starts with a fence followed by text, and no bare fence of that length
                    Scrut(4, "", <<>>, <<Cmd("c1"), Open(3, "js", ""), Plain("inner")>>, TRUE),
                    \* an empty continuation line (`> `) and a command with trailing blanks
                    Scrut(3, "", <<>>, <<Cmd("c1  "), Cont(""), Cont("c3"), Plain("out1")>>, TRUE),
                    \* a continuation line whose text itself starts with the continuation marker
                    Scrut(3, "", <<>>, <<Cmd("c1"), Cont("> c4"), Plain("out1")>>, TRUE),
                    \* expectations with trailing blanks, and an indented fence-like line (content, not a closing fence)
                    Scrut(3, "", <<>>, <<Cmd("c1"), Plain("trail  "), Plain("   ```"), Plain("after")>>, TRUE),
                    \* a test block in the second registered language
                    [Scrut(3, "", <<>>, <<Cmd("c1"), Plain("out1")>>, TRUE) EXCEPT !.lang = "sh"]}
LongSegs == {LongClose(Verbatim(3, "bash", <<Cmd("not a test")>>, TRUE)), LongClose(Scrut(3, "", <<>>, <<Cmd("c1"), Plain("out1")>>, TRUE))}
Segs == ProseSegs \cup VerbSegs \cup ScrutSegs \cup LongSegs
Core == LongSegs \cup {Scrut(3, "", <<>>, <<Cmd("c1"), Plain("trail  "), Plain("   ```"), Plain("after")>>, TRUE),
         [Scrut(3, "", <<>>, <<Cmd("c1"), Plain("out1")>>, TRUE) EXCEPT !.lang = "sh"],
         Scrut(4, "", <<>>, <<Cmd("c1"), Open(3, "js", ""), Plain("inner")>>, TRUE),
         Scrut(3, "", <<>>, <<Cmd("c1  "), Cont(""), Cont("c3"), Plain("out1")>>, TRUE)} \cup {Prose(Blank), Prose(Header), Prose(Tick2), Prose(Rule), Verbatim(3, "@U@{a}", <<Plain("echo")>>, TRUE),
         Verbatim(3, "bash", <<Cmd("not a test")>>, TRUE), Verbatim(4, "markdown", <<Open(3, "scrut", ""), Cmd("x"), Fence(3)>>, TRUE),
         Scrut(3, "", <<>>, <<Cmd("c1"), Plain("out1")>>, TRUE), Scrut(3, "{timeout: 3s}", <<Hash("a comment")>>, <<Cmd("c1"), Plain("out1")>>, TRUE),
         Scrut(4, "", <<>>, <<Cmd("c1"), Cont("c2")>>, TRUE), Scrut(3, "", <<>>, <<>>, TRUE)}

\* an unterminated block is only generated as the last segment (inside it everything would be content)
WellPlaced(d) == \A i \in 1..(Len(d) - 1) : d[i].term
Bodies2 == UNION {[1..n -> Segs] : n \in 0..2}
Bodies3 == [1..3 -> IF Tier = "quick" THEN Core ELSE Segs]
\* a `---` line is only generated where it is unambiguously a horizontal rule: after real content, and not
\* after a front-matter that was never closed
NoLeadingRule(d) == \A i \in 1..Len(d) : d[i] = Prose(Rule) => \E j \in 1..(i - 1) : d[j] \notin {Prose(Blank), Prose(WsOnly)}
NoRule(d) == \A i \in 1..Len(d) : d[i] # Prose(Rule)
Docs == {d \in Bodies2 \cup Bodies3 : WellPlaced(d) /\ NoLeadingRule(d)}
        \cup {<<FrontMatter(TRUE)>> \o d : d \in {x \in Bodies2 : WellPlaced(x) /\ NoLeadingRule(x)}}
        \cup {<<FrontMatter(FALSE)>> \o d : d \in {x \in Bodies2 : WellPlaced(x) /\ NoRule(x)}}
        \* a front-matter after an empty / a blank-only line
        \cup {<<Prose(b), FrontMatter(TRUE)>> \o d : b \in {Blank, WsOnly}, d \in {x \in Bodies2 : Len(x) <= 1 /\ WellPlaced(x) /\ NoLeadingRule(x)}}

Init == /\ doc \in Docs
        /\ lines = RenderDoc(doc) /\ pos = 1 /\ mode = "top" /\ fence = 0 /\ cur = <<>> /\ curcfg = "" /\ curcom = 0
        /\ startln = 0 /\ run = <<>> /\ title = <<>> /\ fresh = FALSE /\ tests = <<>> /\ err = FALSE
Spec == Init /\ [][Next]_vars

Done == mode = "done"
\* the design is right: the machine yields exactly the reference
Agrees == Done =>
            LET r == MdRef(doc) IN
            /\ (r.must_err => err)
            /\ (err => r.may_err \/ r.must_err)
            /\ (~r.must_err => tests = r.tests)
TypeOK == mode \in {"top", "fm", "verb", "comments", "code", "done"} /\ pos \in 1..(Len(lines) + 1)
=============================================================================

------------------------------- MODULE ConfigRoundTrip -------------------------------
(***************************************************************************)
(* C17: a configuration that scrut renders parses back to an equal one.     *)
(*                                                                         *)
(* A configuration assigns to every key a *value class* ("unset" or one of   *)
(* the classes below; the harness holds the concrete values).  Rendering    *)
(* and parsing are the real code; the property is Equal(orig, back) on the  *)
(* canonical text of every key, judged by TLC on each record.               *)
(* The enumeration varies one focus key (or a pair of environment           *)
(* variables) over all its classes against two backgrounds.                 *)
(***************************************************************************)
EXTENDS Naturals, Sequences, FiniteSets, TLC

CONSTANT Tier

Durations == {"0s", "1ms", "1500ms", "90s", "3days", "400days", "1h1m1s"}       \* (0s: the boundary; for total_timeout it means unlimited)
Bools     == {"true", "false"}
Streams   == {"stdout", "stderr", "combined"}
Codes     == {"0", "80", "255"}
Waits     == {"dur", "dur_path", "dur_path_space", "dur_path_special", "dur_path_edge_blank", "dur_path_blank", "dur_zero",
              "dur_path_tilde", "dur_path_at", "dur_path_colon", "dur_path_null", "dur_path_true", "dur_path_num"}      \* YAML-significant plain words
EnvVals   == {"plain", "empty", "dquote", "squote", "backslash", "colon_space", "brace", "comma", "hash", "lead_space",
              "trail_space", "utf8", "looks_bool", "looks_num", "looks_null", "percent_at", "combining", "multiline_dashes", "controls"}
ValuesOf(k) == CASE k = "timeout" -> Durations [] k \in {"keep_crlf", "detached", "strip_ansi_escaping"} -> Bools
                 [] k = "output_stream" -> Streams [] k = "skip_document_code" -> Codes [] k = "wait" -> Waits
Keys == {"timeout", "keep_crlf", "detached", "strip_ansi_escaping", "output_stream", "skip_document_code", "wait"}
Typical(k) == CASE k = "timeout" -> "90s" [] k = "keep_crlf" -> "true" [] k = "detached" -> "false"
                [] k = "strip_ansi_escaping" -> "true" [] k = "output_stream" -> "stderr" [] k = "skip_document_code" -> "255" [] k = "wait" -> "dur"

VARIABLES cfg, env, form    \* cfg : Keys -> class | "unset";  env : sequence of env value classes (<= 2 variables);  form
vars == <<cfg, env, form>>
Unset == [k \in Keys |-> "unset"]
AllTypical == [k \in Keys |-> Typical(k)]
Forms == {"one_liner", "front_matter"}
Init == /\ form \in Forms
        /\ \/ \E k \in Keys : \E v \in ValuesOf(k), bg \in {Unset, AllTypical} :
                 cfg = [bg EXCEPT ![k] = v] /\ env \in {<<>>, <<"plain">>}
           \/ \E a \in EnvVals, bg \in {Unset, AllTypical} : cfg = bg /\ env = <<a>>
           \/ \E a \in EnvVals, b \in EnvVals, bg \in {Unset, AllTypical} :
                 (Tier = "thorough" \/ a = "plain" \/ b = "plain" \/ a = b) /\ cfg = bg /\ env = <<a, b>>
Next == UNCHANGED vars
Spec == Init /\ [][Next]_vars

\* the property on an observation: rendering and parsing succeeded and every key has the same canonical text
C17ok(o) == /\ o.rendered /\ o.parsed
            /\ DOMAIN o.orig = DOMAIN o.back
            /\ \A k \in DOMAIN o.orig : o.orig[k] = o.back[k]
TypeOK == Len(env) <= 2
=============================================================================

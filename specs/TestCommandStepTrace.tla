---------------------------- MODULE TestCommandStepTrace ----------------------------
(***************************************************************************)
(* (T) layer, step level, for `scrut test`: the events emitted by hooks H2   *)
(* (stateful_executor.rs: PickLimit after the limit was chosen, ExecEnd      *)
(* after the command returned) and H3 (test.rs: DocStart) must be steps of   *)
(* the (A) machine of specs/TestCommand.tla.  One trace file holds many      *)
(* runs; every run starts with a "Scenario" record.  Steps without a hook    *)
(* (RunTest, ValidateDoc, EndDoc, Finish, and everything inside the          *)
(* single-script executor of Cram documents) are silent steps of the        *)
(* machine.  A rejected trace is DRIFT, not a property violation.            *)
(***************************************************************************)
EXTENDS TestCommand, Json, IOUtils

Rec == ndJsonDeserialize(IOEnv.TRACE)
VARIABLE i
tvars == <<vars, i>>

Boot == [docs |-> <<>>, tcli |-> None, pre |-> <<>>, app |-> <<>>, via |-> "cli", noshell |-> FALSE, dirarg |-> FALSE, compat |-> FALSE, rel |-> FALSE]
TraceInit == /\ TLCSet(1, 0)
             /\ i = 0 /\ sc = Boot /\ d = 1 /\ k = 1 /\ clock = 0 /\ lim = None /\ isGlobal = FALSE /\ status = "-"
             /\ outs = <<>> /\ res = <<>> /\ ran = <<>> /\ wall = <<>> /\ exit = None /\ pc = "done"

HasEv == i < Len(Rec)
E == Rec[i + 1]
IsEvent(e) == HasEv /\ E.ev = e /\ i' = i + 1
Silent == i' = i

\* a new run: only after the previous one is finished
Scenario == /\ IsEvent("Scenario") /\ pc = "done"
            /\ sc' = E.sc /\ d' = 1 /\ k' = 1 /\ clock' = 0 /\ lim' = None /\ isGlobal' = FALSE /\ status' = "-"
            /\ outs' = [x \in 1..Len(E.sc.docs) |-> <<>>] /\ res' = [x \in 1..Len(E.sc.docs) |-> <<>>]
            /\ ran' = [x \in 1..Len(E.sc.docs) |-> <<>>] /\ wall' = [x \in 1..Len(E.sc.docs) |-> 0]
            /\ exit' = None /\ pc' = "start"

IsCram == Script(sc, d)
Faulty == (\E j \in 1..NDocs : sc.docs[j].fault \in FaultKinds) \/ sc.noshell

\* DocStart is emitted just before the executor runs: the document was read, parsed and assembled
TDocStart  == /\ pc = "start" /\ ~Faulty /\ sc.docs[d].fault # "nomatch" /\ IsEvent("DocStart") /\ E.n = Len(Cur) /\ StartDoc
\* a given file that is no test document by its name never becomes a document: no event
TNoMatch   == /\ pc = "start" /\ ~Faulty /\ sc.docs[d].fault = "nomatch" /\ Silent /\ StartDoc
TFault     == /\ pc = "start" /\ Faulty /\ Silent /\ StartDoc
\* the logged numbers themselves: the chosen limit is the smaller of the defined ones (C14's core, at the linearisation point)
MinMs(a, b) == IF a = -1 THEN b ELSE IF b = -1 THEN a ELSE IF a <= b THEN a ELSE b
\* the hook reads the remaining time a little later than the code did: the logged `left_ms` may be up to 100 ms smaller
ChosenOK == \/ E.chosen_ms = MinMs(E.per_test_ms, E.left_ms)
            \/ /\ E.left_ms # -1 /\ E.chosen_ms # -1 /\ E.chosen_ms >= E.left_ms /\ E.chosen_ms <= E.left_ms + 100
               /\ (E.per_test_ms = -1 \/ E.chosen_ms <= E.per_test_ms)
TPickLimit == /\ pc = "pick" /\ ~IsCram /\ IsEvent("PickLimit") /\ E.index = k - 1
              /\ PickLimit
              /\ isGlobal' = E.is_global
              /\ ((lim' = None) <=> (E.chosen_ms = -1))
              /\ ChosenOK
              /\ E.per_test_ms = (IF OwnT(sc, d, CurTc) = None THEN -1 ELSE 1000 * OwnT(sc, d, CurTc))
              /\ ((Left = None) <=> (E.left_ms = -1))
TCramPick  == /\ pc = "pick" /\ IsCram /\ Silent /\ PickLimit
TRun       == /\ pc = "run" /\ Silent /\ RunTest
THandle(A) == /\ pc = "handle" /\ ~IsCram /\ IsEvent("ExecEnd") /\ E.index = k - 1 /\ E.status = status /\ A
TCramHandle(A) == /\ pc = "handle" /\ IsCram /\ Silent /\ A
TSilent(A) == Silent /\ A

TraceNext == \/ Scenario \/ TDocStart \/ TNoMatch \/ TFault \/ TPickLimit \/ TCramPick \/ TRun
             \/ THandle(OnCode) \/ THandle(OnSkip) \/ THandle(OnTimeout) \/ THandle(OnUnknown) \/ THandle(OnDetached)
             \/ TCramHandle(OnScriptExit) \/ TCramHandle(OnCode) \/ TCramHandle(OnSkip) \/ TCramHandle(OnTimeout) \/ TCramHandle(OnUnknown)
             \/ TSilent(ValidateDoc) \/ TSilent(EndDoc) \/ TSilent(Finish)
TraceSpec == TraceInit /\ [][TraceNext]_tvars

\* progress register: the highest event index reached (needs -workers 1)
Progress == TLCSet(1, IF TLCGet(1) > i THEN TLCGet(1) ELSE i)
Accepted == IF TLCGet(1) = Len(Rec) THEN TRUE
            ELSE /\ PrintT(<<"DRIFT", TLCGet(1) + 1, ToJson(Rec[TLCGet(1) + 1])>>) /\ FALSE
AllDone == (i = Len(Rec) /\ pc = "done") => PrintT(<<"ACCEPTED", i>>)
=============================================================================

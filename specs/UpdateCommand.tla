--------------------------------- MODULE UpdateCommand ---------------------------------
(***************************************************************************)
(* `scrut update <docs>` at the level of FILES (src/bin/commands/update.rs):  *)
(* which documents are executed, which files are written, what is never       *)
(* overwritten, what the summary counts and the exit status are.              *)
(*                                                                         *)
(* Per document (in command line order) the command                          *)
(*   - skips it when it holds no test, when it has `prepend` documents, when   *)
(*     a test case ends in the skip code                                       *)
(*   - gives up (exit 1, nothing further is touched) when execution fails      *)
(*     (a test case runs into its timeout)                                     *)
(*   - counts it unchanged when the regenerated text equals the file           *)
(*   - otherwise determines the target: --convert F (F # the document's       *)
(*     format): <file stem>.<ext of F> IN THE CURRENT DIRECTORY; --replace: the *)
(*     document itself; else <doc>.<ext>.new                                   *)
(*   - when the target exists and --assume-yes is not given it ASKS; without   *)
(*     a terminal the question fails: exit 1, target untouched                 *)
(*   - writes the target                                                       *)
(*                                                                         *)
(*  (A) the machine below, one action per branch                              *)
(*  (P) NoSilentOverwrite / StaleKept / FailingGetsUpdated / PassingUntouched  *)
(*      / Accounted over the final state (and over observations of real runs)  *)
(*                                                                         *)
(* Deliberate deviations of the code from its own messages, modelled as what   *)
(* the code does: documents with `append` (but no `prepend`) are NOT skipped    *)
(* (the condition tests `prepend` twice); converted files are written to the   *)
(* current directory, not next to the source document.                         *)
(***************************************************************************)
EXTENDS Naturals, Sequences, FiniteSets, TLC

\* "killed": three test blocks, the shell of the second one is killed by a signal (no exit code: nothing to write an update from)
Classes  == {"notests", "prepend", "append_fail", "skip", "timeout", "killed", "allpass", "fail", "failcode"}
Failing  == {"fail", "failcode", "append_fail"}
Runnable == Failing \cup {"allpass"}
Formats  == {"md", "cram"}
\* cram documents have no front matter and no per-test configuration
ClassesOf(f) == IF f = "md" THEN Classes ELSE Classes \ {"prepend", "append_fail", "timeout", "killed"}
DocKinds == {d \in [fmt : Formats, cls : Classes, stale : BOOLEAN] : d.cls \in ClassesOf(d.fmt)}
FlagSets == [replace : BOOLEAN, yes : BOOLEAN, convert : {"none", "md", "cram"}]

VARIABLES docs, flags, i, fs, counts, status
vars == <<docs, flags, i, fs, counts, status>>

N == Len(docs)
IsConv(d) == flags.convert # "none" /\ flags.convert # d.fmt
TargetOf(d) == IF IsConv(d) THEN "conv" ELSE IF flags.replace THEN "orig" ELSE "new"
\* file states: orig in {"original", "changed"}; new in {"absent", "stale", "changed"}; conv in {"absent", "changed"}
InitFiles(d) == [orig |-> "original", new |-> IF d.stale THEN "stale" ELSE "absent", conv |-> "absent"]
Exists(f, t) == f[t] # "absent"

Init == /\ docs \in UNION {[1..n -> DocKinds] : n \in 1..2}
        /\ flags \in FlagSets
        /\ i = 1 /\ fs = [k \in 1..Len(docs) |-> InitFiles(docs[k])]
        /\ counts = [updated |-> 0, skipped |-> 0, unchanged |-> 0] /\ status = "running"

Cur == docs[i]
Running == status = "running" /\ i <= N
Bump(what) == counts' = [counts EXCEPT ![what] = @ + 1]
Advance == i' = i + 1 /\ UNCHANGED <<docs, flags, status>>

SkipNoTests == Running /\ Cur.cls = "notests" /\ Bump("skipped") /\ Advance /\ UNCHANGED fs
SkipPrepend == Running /\ Cur.cls = "prepend" /\ Bump("skipped") /\ Advance /\ UNCHANGED fs
SkipCode    == Running /\ Cur.cls = "skip"    /\ Bump("skipped") /\ Advance /\ UNCHANGED fs
AbortExec   == Running /\ Cur.cls \in {"timeout", "killed"} /\ status' = "error" /\ UNCHANGED <<docs, flags, i, fs, counts>>
Unchanged   == Running /\ Cur.cls = "allpass" /\ ~IsConv(Cur) /\ Bump("unchanged") /\ Advance /\ UNCHANGED fs
NeedsWrite  == Running /\ (Cur.cls \in Failing \/ (Cur.cls \in Runnable /\ IsConv(Cur)))
AskNoTty    == NeedsWrite /\ Exists(fs[i], TargetOf(Cur)) /\ ~flags.yes
               /\ status' = "error" /\ UNCHANGED <<docs, flags, i, fs, counts>>
Write       == NeedsWrite /\ (flags.yes \/ ~Exists(fs[i], TargetOf(Cur)))
               /\ fs' = [fs EXCEPT ![i][TargetOf(Cur)] = "changed"]
               /\ Bump("updated") /\ Advance
Finish      == status = "running" /\ i = N + 1 /\ status' = "ok" /\ UNCHANGED <<docs, flags, i, fs, counts>>
Next == SkipNoTests \/ SkipPrepend \/ SkipCode \/ AbortExec \/ Unchanged \/ AskNoTty \/ Write \/ Finish
Spec == Init /\ [][Next]_vars

Done == status \in {"ok", "error"}

-----------------------------------------------------------------------------
(* the same as a function of the scenario (used to judge observations) *)
RECURSIVE Run(_, _, _, _, _)
Run(ds, fl, k, files, cnt) ==
    IF k > Len(ds) THEN [fs |-> files, counts |-> cnt, status |-> "ok"]
    ELSE LET d == ds[k]
             conv == fl.convert # "none" /\ fl.convert # d.fmt
             tgt == IF conv THEN "conv" ELSE IF fl.replace THEN "orig" ELSE "new"
             inc(w) == [cnt EXCEPT ![w] = @ + 1]
         IN CASE d.cls \in {"notests", "prepend", "skip"} -> Run(ds, fl, k + 1, files, inc("skipped"))
              [] d.cls \in {"timeout", "killed"} -> [fs |-> files, counts |-> cnt, status |-> "error"]
              [] d.cls = "allpass" /\ ~conv -> Run(ds, fl, k + 1, files, inc("unchanged"))
              [] OTHER -> IF files[k][tgt] # "absent" /\ ~fl.yes
                          THEN [fs |-> files, counts |-> cnt, status |-> "error"]
                          ELSE Run(ds, fl, k + 1, [files EXCEPT ![k][tgt] = "changed"], inc("updated"))
Predict(ds, fl) == Run(ds, fl, 1, [k \in 1..Len(ds) |-> [orig |-> "original", new |-> IF ds[k].stale THEN "stale" ELSE "absent", conv |-> "absent"]],
                       [updated |-> 0, skipped |-> 0, unchanged |-> 0])

-----------------------------------------------------------------------------
(* (P) over a final state o = [fs, counts, status] of the scenario (ds, fl) *)
ConvOf(ds, fl, k) == fl.convert # "none" /\ fl.convert # ds[k].fmt
\* the user's document is only ever overwritten on request (--replace), with consent (--assume-yes), and because a test failed
NoSilentOverwrite(ds, fl, o) ==
    \A k \in 1..Len(ds) : o.fs[k].orig # "original" => fl.replace /\ fl.yes /\ ~ConvOf(ds, fl, k) /\ ds[k].cls \in Failing
\* an existing `.new` file is only ever overwritten with consent
StaleKept(ds, fl, o) ==
    \A k \in 1..Len(ds) : ds[k].stale /\ o.fs[k].new # "stale" => fl.yes /\ ~fl.replace /\ ~ConvOf(ds, fl, k) /\ ds[k].cls \in Failing
\* documents whose tests all pass are left alone and produce no file (unless converted)
PassingUntouched(ds, fl, o) ==
    \A k \in 1..Len(ds) : ds[k].cls \in {"allpass", "notests", "skip"} /\ ~ConvOf(ds, fl, k) =>
        o.fs[k] = [orig |-> "original", new |-> IF ds[k].stale THEN "stale" ELSE "absent", conv |-> "absent"]
\* when the command succeeds, every failing document got its update
FailingGetsUpdated(ds, fl, o) ==
    o.status = "ok" => \A k \in 1..Len(ds) : ds[k].cls \in {"fail", "failcode"} =>
        LET tgt == IF ConvOf(ds, fl, k) THEN "conv" ELSE IF fl.replace THEN "orig" ELSE "new" IN o.fs[k][tgt] = "changed"
\* when the command succeeds, the summary accounts for every document exactly once
Accounted(ds, fl, o) ==
    o.status = "ok" => o.counts.updated + o.counts.skipped + o.counts.unchanged = Len(ds)
                       /\ o.counts.updated = Cardinality({k \in 1..Len(ds) : o.fs[k] # [orig |-> "original", new |-> IF ds[k].stale THEN "stale" ELSE "absent", conv |-> "absent"]})
Props(ds, fl, o) == NoSilentOverwrite(ds, fl, o) /\ StaleKept(ds, fl, o) /\ PassingUntouched(ds, fl, o)
                    /\ FailingGetsUpdated(ds, fl, o) /\ Accounted(ds, fl, o)

MachineState == [fs |-> fs, counts |-> counts, status |-> status]
\* design checks: the machine satisfies (P) and equals the function
DesignOK == Done => Props(docs, flags, MachineState) /\ MachineState = Predict(docs, flags)
TypeOK == /\ i \in 1..(N + 1) /\ status \in {"running", "ok", "error"}
          /\ \A k \in 1..N : fs[k].orig \in {"original", "changed"} /\ fs[k].new \in {"absent", "stale", "changed"} /\ fs[k].conv \in {"absent", "changed"}
=============================================================================

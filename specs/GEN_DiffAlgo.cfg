SPECIFICATION Spec
CONSTANTS
  NE = 3
  NL = 3
INVARIANTS Emit
CHECK_DEADLOCK FALSE

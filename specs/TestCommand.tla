-------------------------------- MODULE TestCommand --------------------------------
(***************************************************************************)
(* `scrut test` end to end: the documents loop of src/bin/commands/test.rs, *)
(* the sequential executor of src/executors/stateful_executor.rs (Markdown) *)
(* and the single-script executor of bash_script_executor.rs (Cram), the    *)
(* verdict of TestCase::validate, and the process exit status of main.rs.   *)
(*                                                                         *)
(* A *scenario* `sc` (chosen in Init, never changed) describes a run: the   *)
(* documents on the command line, their test cases (what each command does, *)
(* what the test expects, limits and flags), shared prepend / append        *)
(* documents, command line limits, faults.  Time is an integer clock in     *)
(* ticks (1 tick = 1 s when replayed).                                      *)
(*                                                                         *)
(*  (A) layer: PickLimit / Run / OnCode / OnSkip / OnTimeout / OnUnknown /  *)
(*             OnDetached / EndDoc / Fault / Finish                          *)
(*  (P) layer: C05ok, C14ok, C15ok, C20ok over (scenario, observation)      *)
(***************************************************************************)
EXTENDS TestCommandProps

CONSTANT Focus      \* which scenario family Init draws from: "C05" | "C14" | "C15" | "C20" | "TRACE"


VARIABLES sc,       \* the scenario
          d,        \* current document (1-based index into sc.docs)
          k,        \* current test case (1-based index into Assembled(d))
          clock,    \* ticks since the current document started executing
          lim, isGlobal,   \* limit chosen for the current test case (None = no limit)
          status,   \* status of the command just run: "code" | "timeout" | "unknown" | "detached" | "-"
          outs,     \* per document: sequence of statuses collected so far ("code", "timeout", "unknown", "detached")
          res,      \* per document: sequence of result kinds, aligned with Assembled(d); "none" = no result
          ran,      \* per document: sequence of ids of the commands that were started
          wall,     \* per document: ticks spent executing
          exit,     \* process exit status, None while running
          pc

vars == <<sc, d, k, clock, lim, isGlobal, status, outs, res, ran, wall, exit, pc>>

-----------------------------------------------------------------------------
(* (A) the algorithm *)


NDocs == Len(sc.docs)
Cur   == Assembled(sc, d)
CurTc == Cur[k]
Left  == LET T == TotalLimit(sc, d) IN IF T = None THEN None ELSE IF T >= clock THEN T - clock ELSE 0

SetAt(seq, i, v) == [seq EXCEPT ![i] = v]
AppendAt(seqs, i, v) == [seqs EXCEPT ![i] = Append(@, v)]
AllRes(n, v) == [x \in 1..n |-> v]

Validate(tc, st) ==
    IF st = "unknown" THEN "internal_error"          \* no exit code: never a success
    ELSE IF tc.code # ExpCode(tc) THEN "invalid_exit_code"
    ELSE IF Accepts(tc) THEN "success" ELSE "malformed_output"

\* a document that cannot be read / parsed, or a shell that cannot be started, aborts the whole run before anything is executed
StartDoc ==
    /\ pc = "start"
    \* all documents are read and parsed before the first one is executed (test.rs: find_and_parse up front)
    /\ IF (\E j \in 1..NDocs : sc.docs[j].fault \in FaultKinds) \/ sc.noshell
       THEN /\ exit' = 1 /\ pc' = "done"
            /\ UNCHANGED <<sc, d, k, clock, lim, isGlobal, status, outs, res, ran, wall>>
       ELSE /\ pc' = IF Len(Cur) = 0 THEN "enddoc" ELSE "pick"
            /\ k' = 1 /\ clock' = 0
            /\ UNCHANGED <<sc, d, lim, isGlobal, status, outs, res, ran, wall, exit>>

\* Cram: one script for the whole document; per-test limits are not supported (execution error)
CramUnsupported == Script(sc, d) /\ ((\E x \in 1..Len(Cur) : Cur[x].t # None \/ Cur[x].det) \/ InconsistentSkip(sc, d))

\* stateful_executor.rs: the limit is the *smaller* of the per-test timeout and the time left
PickLimit ==
    /\ pc = "pick"
    /\ IF CramUnsupported
       THEN exit' = 1 /\ pc' = "done" /\ UNCHANGED <<lim, isGlobal>>
       ELSE /\ lim' = MinDefined(IF Script(sc, d) THEN None ELSE OwnT(sc, d, CurTc), Left)
            /\ isGlobal' = (Left # None /\ (OwnT(sc, d, CurTc) = None \/ Script(sc, d) \/ Left <= OwnT(sc, d, CurTc)))
            /\ pc' = "run" /\ UNCHANGED exit
    /\ UNCHANGED <<sc, d, k, clock, status, outs, res, ran, wall>>

RunTest ==
    /\ pc = "run"
    /\ ran' = AppendAt(ran, d, CurTc.id)
    \* the limit was picked before scrut waits (`wait`), the command then runs under that limit
    /\ IF CurTc.det THEN status' = "detached" /\ clock' = clock + CurTc.wait
       ELSE IF lim # None /\ CurTc.dur >= lim THEN status' = "timeout" /\ clock' = clock + CurTc.wait + lim
       ELSE /\ clock' = clock + CurTc.wait + CurTc.dur
            /\ status' = IF CurTc.beh = "signal" THEN "unknown" ELSE "code"   \* "exit" and "exitscript"
    /\ pc' = "handle"
    /\ UNCHANGED <<sc, d, k, lim, isGlobal, outs, res, wall, exit>>

Advance == IF k < Len(Cur) THEN k' = k + 1 /\ pc' = "pick" ELSE k' = k /\ pc' = "validate"

\* one script for the whole document: a command that ends the shell ends the script; scrut finds fewer results than test
\* cases and gives up (execution error)
OnScriptExit ==
    /\ pc = "handle" /\ status = "code" /\ ScriptCutAt(sc, d, k)
    /\ exit' = 1 /\ pc' = "done"
    /\ UNCHANGED <<sc, d, k, clock, lim, isGlobal, status, outs, res, ran, wall>>

OnCode ==
    /\ pc = "handle" /\ status = "code" /\ CurTc.code # SkipCode(sc, d, CurTc) /\ ~ScriptCutAt(sc, d, k)
    /\ outs' = AppendAt(outs, d, "code")
    /\ Advance
    /\ UNCHANGED <<sc, d, clock, lim, isGlobal, status, res, ran, wall, exit>>

\* the skip code: the whole document is reported as skipped
OnSkip ==
    /\ pc = "handle" /\ status = "code" /\ CurTc.code = SkipCode(sc, d, CurTc)
    /\ res' = SetAt(res, d, AllRes(Len(Cur), "skipped"))
    /\ pc' = "enddoc"
    /\ UNCHANGED <<sc, d, k, clock, lim, isGlobal, status, outs, ran, wall, exit>>

\* a timeout ends the document: earlier ones validated, this one "timeout", later ones "skipped"
OnTimeout ==
    /\ pc = "handle" /\ status = "timeout"
    /\ res' = SetAt(res, d, [x \in 1..Len(Cur) |->
                  IF Script(sc, d) THEN (IF x = 1 THEN "timeout" ELSE "skipped")   \* one script: no attribution
                  ELSE IF x < k THEN (IF outs[d][x] = "detached" THEN "none" ELSE Validate(Cur[x], outs[d][x]))
                  ELSE IF x = k THEN "timeout" ELSE "skipped"])
    /\ outs' = AppendAt(outs, d, "timeout")
    /\ pc' = "enddoc"
    /\ UNCHANGED <<sc, d, k, clock, lim, isGlobal, status, ran, wall, exit>>

\* no exit code (killed by a signal): the remaining test cases do not run
OnUnknown ==
    /\ pc = "handle" /\ status = "unknown"
    /\ outs' = SetAt(outs, d, outs[d] \o [x \in 1..(Len(Cur) - k + 1) |-> "unknown"])
    /\ pc' = "validate"
    /\ UNCHANGED <<sc, d, k, clock, lim, isGlobal, status, res, ran, wall, exit>>

OnDetached ==
    /\ pc = "handle" /\ status = "detached"
    /\ outs' = AppendAt(outs, d, "detached")
    /\ Advance
    /\ UNCHANGED <<sc, d, clock, lim, isGlobal, status, res, ran, wall, exit>>

\* test.rs: every collected output is validated; detached ones give no result
ValidateDoc ==
    /\ pc = "validate"
    /\ res' = SetAt(res, d, [x \in 1..Len(Cur) |->
                  IF outs[d][x] = "detached" THEN "none" ELSE Validate(Cur[x], outs[d][x])])
    /\ pc' = "enddoc"
    /\ UNCHANGED <<sc, d, k, clock, lim, isGlobal, status, outs, ran, wall, exit>>

AnyFailed == \E i \in 1..NDocs : \E x \in 1..Len(res[i]) : IsFailure(res[i][x])

EndDoc ==
    /\ pc = "enddoc"
    /\ wall' = SetAt(wall, d, clock)
    /\ IF d < NDocs THEN d' = d + 1 /\ pc' = "start" /\ UNCHANGED exit
       ELSE d' = d /\ pc' = "finish" /\ UNCHANGED exit
    /\ UNCHANGED <<sc, k, clock, lim, isGlobal, status, outs, res, ran>>

Finish ==
    /\ pc = "finish"
    /\ exit' = IF AnyFailed THEN 50 ELSE 0
    /\ pc' = "done"
    /\ UNCHANGED <<sc, d, k, clock, lim, isGlobal, status, outs, res, ran, wall>>

Next == StartDoc \/ PickLimit \/ RunTest \/ OnScriptExit \/ OnCode \/ OnSkip \/ OnTimeout \/ OnUnknown \/ OnDetached
        \/ ValidateDoc \/ EndDoc \/ Finish

-----------------------------------------------------------------------------
(* the model's own observation *)
ModelObs == [res |-> res, ran |-> [i \in 1..NDocs |-> SelectSeq(ran[i], LAMBDA id : \E x \in 1..Len(Assembled(sc, i)) :
                                          Assembled(sc, i)[x].id = id /\ ~Assembled(sc, i)[x].det)],
             exit |-> exit, aborted |-> exit = 1, dupes |-> 0, sumok |-> TRUE,
             wallds |-> [i \in 1..NDocs |-> 10 * wall[i]], late |-> [i \in 1..NDocs |-> <<>>]]

Done == pc = "done"
InvC05 == Done => C05ok(sc, ModelObs)
InvC14 == Done => C14ok(sc, ModelObs)
InvC15 == Done => C15ok(sc, ModelObs)
InvC20 == Done => C20ok(sc, ModelObs)

TypeOK == /\ pc \in {"start", "pick", "run", "handle", "validate", "enddoc", "finish", "done"}
          /\ d \in 1..NDocs /\ exit \in {None, 0, 1, 50}
          /\ (lim # None => lim >= 0)
          /\ StreamWF(sc)
=============================================================================

------------------------------ MODULE ExpectationTrace ------------------------------
(* (T) layer for C08: each record is one call of the real ExpectationMaker::parse on a rendered token line
   (plus canonical re-rendering and re-parsing); TLC recomputes the documented reading ParseRef. *)
EXTENDS ExpectationGrammar, Json, IOUtils

Rec == ndJsonDeserialize(IOEnv.TRACE)
VARIABLE i
TraceInit == i = 0 /\ line = <<>>
Load == i < Len(Rec) /\ i' = i + 1 /\ line' = Rec[i + 1].line
TraceSpec == TraceInit /\ [][Load]_<<i, line>>

R == Rec[i]
P == ParseRef(line)
\* the stored expression is the written one unless the kind resolves / repairs escape sequences
HasStar(e) == \E x \in 1..Len(e) : e[x] = T("ST")
ExprComparable == /\ ~(P.kind \in {"escaped", "regex"} /\ Risky(P.expr))
                  /\ ~(P.kind = "glob" /\ (EndsEscaped(P.expr) \/ HasStar(P.expr)))   \* wildmatch stores `**` as `*`
ParseOK == /\ R.obs.result # "panic"
           /\ (R.obs.result = "err" => FailAllowed(line))
           /\ (R.obs.result = "ok" =>
                 /\ R.obs.kind = P.kind /\ R.obs.quant = P.quant
                 /\ (ExprComparable => R.obs.expr = R.pre[Len(P.expr) + 1]))
RoundTripOK == R.obs.result = "ok" =>
                 \A x \in 1..Len(R.obs.rt) : LET t == R.obs.rt[x] IN t.result = "ok" /\ t.same_quant /\ t.same_matches
Verdicts == (i > 0) => /\ (ParseOK \/ PrintT(<<"VERDICT", "C08", R.id, "parse">>))
                       /\ (RoundTripOK \/ PrintT(<<"VERDICT", "C08", R.id, "roundtrip">>))
Accepted == TLCGet("stats").diameter - 1 = Len(Rec)
=============================================================================

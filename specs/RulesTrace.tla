--------------------------------- MODULE RulesTrace ---------------------------------
(* (T) layer for Rules: TLC recomputes the documented verdict for every (expression, line) pair
   the real rule engines were asked about and compares it with the observed answer. *)
EXTENDS Rules, Json, IOUtils

Rec == ndJsonDeserialize(IOEnv.TRACE)

VARIABLE i
tvars == <<vars, i>>

TraceInit == i = 0 /\ kind = "none" /\ expr = <<>> /\ ast = <<>>
Load == /\ i < Len(Rec) /\ i' = i + 1
        /\ kind' = Rec[i + 1].kind /\ expr' = Rec[i + 1].expr /\ ast' = Rec[i + 1].ast
TraceSpec == TraceInit /\ [][Load]_tvars

R == Rec[i]
B2S(b) == IF b THEN "T" ELSE "F"

\* with the Cram-compatible registry a glob (also an escaped glob) has the Cram escapes
ExpectedIn(reg, line) ==
    IF reg = "cram" /\ kind \in {"glob", "escglob"}
    THEN CramGlobMatch(IF kind = "escglob" THEN Decode(expr) ELSE expr, TrimNL(line))
    ELSE Expected(line)

\* one VERDICT line per disagreement: <<"VERDICT", "C04", record id, variant index, line index (0 = parse)>>
VariantOK(v) ==
    LET V == R.variants[v] IN
    IF V.parse # "ok"
    THEN MustFail \/ PrintT(<<"VERDICT", "C04", R.id, v, 0>>)
    ELSE MustFail \/ \A j \in 1..Len(V.obs) :
                        V.obs[j].o = B2S(ExpectedIn(V.reg, V.obs[j].l)) \/ PrintT(<<"VERDICT", "C04", R.id, v, j>>)

Verdicts == (i > 0) =>
              IF kind = "crash" THEN PrintT(<<"VERDICT", "C04", R.id, 0, 0>>)
              ELSE \A v \in 1..Len(R.variants) : VariantOK(v)

Accepted == TLCGet("stats").diameter - 1 = Len(Rec)
=============================================================================

SPECIFICATION Spec
CONSTANTS
  N = 3
INVARIANTS Lossless PrintOK Unmarked
CHECK_DEADLOCK FALSE

SPECIFICATION Spec
CONSTANTS
  N = 3
INVARIANTS Lossless CollisionIsReal PrintOK Unmarked
CHECK_DEADLOCK FALSE

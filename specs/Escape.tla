----------------------------------- MODULE Escape -----------------------------------
(***************************************************************************)
(* C11: the escaper (src/escaping.rs) and the reader of escaped text        *)
(* (src/rules/escaped_filter.rs), at byte level.                            *)
(*                                                                         *)
(* A line is a sequence of *classes*; each class stands for one character   *)
(* given by its bytes (all values are numbers, text is a sequence of byte   *)
(* values):                                                                 *)
(*   P z   Px x   Ph 1   P0 0   Pe t   Pn n   B backslash                   *)
(*   T TAB   Cn BEL (named control)   Cx 0x01 (other control)               *)
(*   U e-acute (C3 A9, printable)   O U+0085 (C2 85, category "other")      *)
(*   I 0xFF (not valid UTF-8)                                               *)
(*   S the six characters ` (esc)` as one unit: line content that looks     *)
(*     like the marker scrut itself appends                                 *)
(* Encode(mode, s) is the *intended* escaper: when a line has to be marked  *)
(* `(escaped)`, every backslash is doubled.  Decode is the documented       *)
(* reader.  TLC checks  Decode(Encode(s)) = s  and  Printable(Encode(s)).   *)
(***************************************************************************)
EXTENDS Naturals, Sequences, FiniteSets, TLC

CONSTANT N

Classes == {"P", "Px", "Ph", "P0", "Pe", "Pn", "B", "T", "Cn", "Cx", "U", "O", "I", "S"}
MarkShort == <<32, 40, 101, 115, 99, 41>>                       \* ` (esc)`
MarkLong  == <<32, 40, 101, 115, 99, 97, 112, 101, 100, 41>>    \* ` (escaped)`
Bytes(c) == CASE c = "P" -> <<122>> [] c = "Px" -> <<120>> [] c = "Ph" -> <<49>> [] c = "P0" -> <<48>>
              [] c = "Pe" -> <<116>> [] c = "Pn" -> <<110>> [] c = "B" -> <<92>> [] c = "T" -> <<9>>
              [] c = "Cn" -> <<7>> [] c = "Cx" -> <<1>> [] c = "U" -> <<195, 169>> [] c = "O" -> <<194, 133>>
              [] c = "I" -> <<255>> [] c = "S" -> MarkShort
AsciiPrintable(c) == c \in {"P", "Px", "Ph", "P0", "Pe", "Pn", "B", "S"}
UnicodeOther(c)   == c \in {"T", "Cn", "Cx", "O"}

RECURSIVE Flat(_)
Flat(s) == IF s = <<>> THEN <<>> ELSE Bytes(Head(s)) \o Flat(Tail(s))

HexDigit(v) == IF v < 10 THEN 48 + v ELSE 87 + v
HexOf(b) == <<92, 120, HexDigit(b \div 16), HexDigit(b % 16)>>
RECURSIVE HexAll(_)
HexAll(bs) == IF bs = <<>> THEN <<>> ELSE HexOf(Head(bs)) \o HexAll(Tail(bs))
Named(c) == CASE c = "T" -> <<92, 116>> [] c = "Cn" -> <<92, 97>>

\* one character of a line that is being escaped
EscAscii(c) == IF c = "B" THEN <<92, 92>>
               ELSE IF AsciiPrintable(c) THEN Bytes(c)
               ELSE IF c \in {"T", "Cn"} THEN Named(c)
               ELSE HexAll(Bytes(c))
EscUnicode(c) == IF c = "B" THEN <<92, 92>>
                 ELSE IF UnicodeOther(c) THEN EscAscii(c)
                 ELSE Bytes(c)
Invalid(s) == \E x \in 1..Len(s) : s[x] = "I"
Marked(mode, s) == IF mode = "ascii" \/ Invalid(s) THEN \E x \in 1..Len(s) : ~AsciiPrintable(s[x])
                   ELSE \E x \in 1..Len(s) : UnicodeOther(s[x])
RECURSIVE MapCat(_, _)
MapCat(F(_), s) == IF s = <<>> THEN <<>> ELSE F(Head(s)) \o MapCat(F, Tail(s))
Encode(mode, s) == IF ~Marked(mode, s) THEN Flat(s)
                   ELSE IF mode = "ascii" \/ Invalid(s) THEN MapCat(EscAscii, s) ELSE MapCat(EscUnicode, s)

\* the documented reader of `(escaped)` text
IsHex(b) == b \in 48..57 \/ b \in 97..102
HexVal(b) == IF b <= 57 THEN b - 48 ELSE b - 87
NamedVal(b) == CASE b = 97 -> 7 [] b = 98 -> 8 [] b = 101 -> 27 [] b = 102 -> 12 [] b = 114 -> 13 [] b = 116 -> 9 [] b = 118 -> 11
ERR == <<999>>
Cons(x, rest) == IF rest = ERR THEN ERR ELSE x \o rest
RECURSIVE Decode(_)
Decode(e) ==
    IF e = <<>> THEN <<>>
    ELSE IF Head(e) # 92 THEN Cons(<<Head(e)>>, Decode(Tail(e)))
    ELSE IF Len(e) = 1 THEN ERR
    ELSE LET c == e[2] IN
        IF c \in {97, 98, 101, 102, 114, 116, 118} THEN Cons(<<NamedVal(c)>>, Decode(SubSeq(e, 3, Len(e))))
        ELSE IF c = 92 THEN Cons(<<92>>, Decode(SubSeq(e, 3, Len(e))))
        ELSE IF c = 120 THEN
            IF Len(e) >= 4 /\ IsHex(e[3]) /\ IsHex(e[4])
            THEN Cons(<<16 * HexVal(e[3]) + HexVal(e[4])>>, Decode(SubSeq(e, 5, Len(e)))) ELSE ERR
        ELSE IF c = 48 THEN
            IF Len(e) >= 4 /\ e[3] \in 48..55 /\ e[4] \in 48..55
            THEN Cons(<<8 * (e[3] - 48) + (e[4] - 48)>>, Decode(SubSeq(e, 5, Len(e)))) ELSE ERR
        ELSE Cons(<<92, c>>, Decode(SubSeq(e, 3, Len(e))))
\* the whole text scrut writes for a line, and what a reader of expectation text makes of it: ONE final marker is taken
\* off (it announces the kind) and the rest is decoded; text without a final marker is the line itself
Written(mode, s) == Encode(mode, s) \o (IF Marked(mode, s) THEN MarkLong ELSE <<>>)
EndsWith(t, m) == Len(t) >= Len(m) /\ SubSeq(t, Len(t) - Len(m) + 1, Len(t)) = m
ReadText(t) == IF EndsWith(t, MarkLong) THEN Decode(SubSeq(t, 1, Len(t) - Len(MarkLong)))
               ELSE IF EndsWith(t, MarkShort) THEN Decode(SubSeq(t, 1, Len(t) - Len(MarkShort)))
               ELSE t
ReadBack(mode, s) == ReadText(Written(mode, s))
\* deliberate deviation, modelled because the code has it (known finding C09 sfx_esc, same root): a line that needs no
\* escaping but itself ends like the marker is written verbatim and so read as an escaped expectation
Collides(mode, s) == ~Marked(mode, s) /\ (EndsWith(Flat(s), MarkShort) \/ EndsWith(Flat(s), MarkLong))

\* printable: ASCII mode -> printable ASCII only; unicode mode -> no control bytes, and the only bytes >= 128
\* are those of the printable two-byte character (C3 A9)
RECURSIVE UnicodeClean(_)
UnicodeClean(t) == IF t = <<>> THEN TRUE
                   ELSE IF Head(t) \in 32..126 THEN UnicodeClean(Tail(t))
                   ELSE Len(t) >= 2 /\ t[1] = 195 /\ t[2] = 169 /\ UnicodeClean(Tail(Tail(t)))
Printable(mode, t) == IF mode = "ascii" THEN \A x \in 1..Len(t) : t[x] \in 32..126 ELSE UnicodeClean(t)

VARIABLES mode, s
Init == mode \in {"ascii", "unicode"} /\ s \in UNION {[1..n -> Classes] : n \in 0..N}
Next == UNCHANGED <<mode, s>>
Spec == Init /\ [][Next]_<<mode, s>>

Lossless  == ~Collides(mode, s) => ReadBack(mode, s) = Flat(s)
CollisionIsReal == Collides(mode, s) => ReadBack(mode, s) # Flat(s)
PrintOK   == Printable(mode, Encode(mode, s))
\* unmarked text is the line itself
Unmarked  == ~Marked(mode, s) => Encode(mode, s) = Flat(s)
=============================================================================

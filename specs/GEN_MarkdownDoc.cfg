SPECIFICATION Spec
CONSTANTS
  Tier = "quick"
INVARIANTS Emit
CHECK_DEADLOCK FALSE

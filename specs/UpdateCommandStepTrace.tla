--------------------------- MODULE UpdateCommandStepTrace ---------------------------
(***************************************************************************)
(* (T) layer, step level, for `scrut update`: the events emitted by hook H5  *)
(* (src/bin/commands/update.rs: UpdDoc at the start of a document's turn,     *)
(* UpdSkip / UpdUnchanged / UpdAsk / UpdWrite at the respective branch,       *)
(* UpdSummary before the summary is printed) must be steps of the (A)         *)
(* machine of specs/UpdateCommand.tla, with matching arguments (skip reason,   *)
(* kind of the written target, summary counts).  One trace file holds many    *)
(* runs; every run starts with a "Scenario" record.  AbortExec (the command    *)
(* gives up) has no event: a silent step.  A rejected trace is DRIFT.          *)
(***************************************************************************)
EXTENDS UpdateCommand, Json, IOUtils

Rec == ndJsonDeserialize(IOEnv.TRACE)
VARIABLES l, seen          \* position in the trace; UpdDoc of the current document was consumed
tvars == <<vars, l, seen>>

Zero == [updated |-> 0, skipped |-> 0, unchanged |-> 0]
TraceInit == /\ TLCSet(1, 0)
             /\ l = 0 /\ seen = FALSE /\ docs = <<>> /\ flags = [replace |-> FALSE, yes |-> FALSE, convert |-> "none"]
             /\ i = 1 /\ fs = <<>> /\ counts = Zero /\ status = "ok"

HasEv == l < Len(Rec)
E == Rec[l + 1]
IsEvent(e) == HasEv /\ E.ev = e /\ l' = l + 1
Silent == l' = l

Scenario == /\ IsEvent("Scenario") /\ status \in {"ok", "error"}
            /\ docs' = E.docs /\ flags' = E.flags /\ i' = 1
            /\ fs' = [k \in 1..Len(E.docs) |-> InitFiles(E.docs[k])]
            /\ counts' = Zero /\ status' = "running" /\ seen' = FALSE

FormatName(f) == IF f = "md" THEN "markdown" ELSE "cram"
TDoc == /\ Running /\ ~seen /\ IsEvent("UpdDoc") /\ E.format = FormatName(Cur.fmt)
        /\ ((E.n = 0) <=> (Cur.cls = "notests"))
        /\ seen' = TRUE /\ UNCHANGED vars
TSkip(A, reason) == seen /\ IsEvent("UpdSkip") /\ E.reason = reason /\ A /\ seen' = FALSE
TUnchanged == seen /\ IsEvent("UpdUnchanged") /\ Unchanged /\ seen' = FALSE
TAsk   == seen /\ IsEvent("UpdAsk") /\ AskNoTty /\ seen' = FALSE
TWrite == seen /\ IsEvent("UpdWrite") /\ E.kind = TargetOf(Cur) /\ Write /\ seen' = FALSE
TAbort == seen /\ Silent /\ AbortExec /\ seen' = FALSE
TFinish == /\ ~seen /\ IsEvent("UpdSummary")
           /\ E.updated = counts.updated /\ E.skipped = counts.skipped /\ E.unchanged = counts.unchanged
           /\ Finish /\ UNCHANGED seen

TraceNext == \/ Scenario \/ TDoc
             \/ TSkip(SkipNoTests, "notests") \/ TSkip(SkipPrepend, "prepend") \/ TSkip(SkipCode, "skipcode")
             \/ TUnchanged \/ TAsk \/ TWrite \/ TAbort \/ TFinish
TraceSpec == TraceInit /\ [][TraceNext]_tvars

Progress == TLCSet(1, IF TLCGet(1) > l THEN TLCGet(1) ELSE l)
Accepted == IF TLCGet(1) = Len(Rec) THEN TRUE
            ELSE /\ PrintT(<<"DRIFT", TLCGet(1) + 1, ToJson(Rec[TLCGet(1) + 1])>>) /\ FALSE
AllDone == (l = Len(Rec) /\ status \in {"ok", "error"}) => PrintT(<<"ACCEPTED", l>>)
=============================================================================

SPECIFICATION TraceSpec
CONSTANTS
  NE = 16
  NL = 32
INVARIANTS Verdicts
POSTCONDITION Accepted
CHECK_DEADLOCK FALSE

--------------------------------- MODULE DiffAlgo ---------------------------------
(***************************************************************************)
(* scrut's line matcher: `DiffTool::diff` + `peek_match` (src/diff.rs).    *)
(*                                                                         *)
(* Input abstraction: `n` expectations, `m` output lines, a quantifier     *)
(* vector `q` and a match matrix `M` (line l matches expectation k iff     *)
(* l \in M[k]).  The abstraction is exact: diff() consults rules only      *)
(* through `Expectation::matches`.                                         *)
(*                                                                         *)
(*  (A) layer : one action per branch of the loop + the tail               *)
(*  (P) layer : reference language semantics (InLang), determinism (Det),  *)
(*              the properties C01 Sound, C02 Conserve, C03 Complete       *)
(***************************************************************************)
EXTENDS Naturals, Sequences, FiniteSets, TLC

CONSTANTS NE, NL             \* bounds on #expectations and #lines

VARIABLES n, m, q, M,        \* the input (chosen in Init, never changed)
          ei, li, ms,        \* cursors (1-based); ms = 0 encodes match_start = None
          out,               \* the result so far: sequence of entries
          pc                 \* "loop" | "done"

input == <<n, m, q, M>>
vars  == <<n, m, q, M, ei, li, ms, out, pc>>

Quant == {"1", "?", "*", "+"}

-----------------------------------------------------------------------------
(* helpers *)
Opt(k)        == q[k] \in {"?", "*"}
Multi(k)      == q[k] \in {"*", "+"}
Matches(k, l) == l \in M[k]

RangeSeq(a, b) == [i \in 1..(IF b >= a THEN b - a + 1 ELSE 0) |-> a + i - 1]

Matched(k, ls)  == [t |-> "M", e |-> k, ls |-> ls]
Unmatched(k)    == [t |-> "U", e |-> k, ls |-> <<>>]
Unexpected(ls)  == [t |-> "X", e |-> 0, ls |-> ls]

Min(S) == CHOOSE x \in S : \A y \in S : x <= y

\* the non-optional expectations a..b as Unmatched entries, in order
RECURSIVE UnmatchedSeq(_, _)
UnmatchedSeq(a, b) ==
    IF a > b THEN <<>>
    ELSE (IF Opt(a) THEN <<>> ELSE <<Unmatched(a)>>) \o UnmatchedSeq(a + 1, b)

-----------------------------------------------------------------------------
(* (A) the algorithm, shaped like src/diff.rs *)

Init == /\ n \in 0..NE /\ m \in 0..NL
        /\ q \in [1..n -> Quant]
        /\ M \in [1..n -> SUBSET (1..m)]
        /\ ei = 1 /\ li = 1 /\ ms = 0 /\ out = <<>> /\ pc = "loop"

InLoop == pc = "loop" /\ ei <= n /\ li <= m

YieldCond == /\ ei + 1 <= n
             /\ (Opt(ei) \/ ms # 0)
             /\ Matches(ei + 1, li)

\* diff.rs: multiline expectation gives way to the next expectation
MultiYield ==
    /\ InLoop /\ Matches(ei, li) /\ Multi(ei) /\ YieldCond
    /\ out' = IF ms # 0 THEN Append(out, Matched(ei, RangeSeq(ms, li - 1))) ELSE out
    /\ ei' = ei + 1 /\ ms' = 0
    /\ UNCHANGED <<li, pc, input>>

\* diff.rs: multiline expectation consumes the line
MultiConsume ==
    /\ InLoop /\ Matches(ei, li) /\ Multi(ei) /\ ~YieldCond
    /\ ms' = IF ms = 0 THEN li ELSE ms
    /\ li' = li + 1
    /\ UNCHANGED <<ei, out, pc, input>>

\* diff.rs: single-line expectation matches
SingleMatch ==
    /\ InLoop /\ Matches(ei, li) /\ ~Multi(ei)
    /\ out' = Append(out, Matched(ei, <<li>>))
    /\ li' = li + 1 /\ ei' = ei + 1
    /\ UNCHANGED <<ms, pc, input>>

\* diff.rs: a multiline run ends on a non-matching line
RunEnd ==
    /\ InLoop /\ ~Matches(ei, li) /\ ms # 0
    /\ out' = Append(out, Matched(ei, RangeSeq(ms, li - 1)))
    /\ ms' = 0 /\ ei' = ei + 1
    /\ UNCHANGED <<li, pc, input>>

LaterExp  == {j \in (ei + 1)..n : Matches(j, li)}
LaterLine == {k \in (li + 1)..m : Matches(ei, k)}
PeekCond  == InLoop /\ ~Matches(ei, li) /\ ms = 0

\* peek_match: a later expectation matches the current line
PeekExp ==
    /\ PeekCond /\ LaterExp # {}
    /\ LET j == Min(LaterExp) IN
          /\ out' = out \o UnmatchedSeq(ei, j - 1)
          /\ ei' = j
    /\ UNCHANGED <<li, ms, pc, input>>

\* peek_match: a later line matches the current expectation
PeekLine ==
    /\ PeekCond /\ LaterExp = {} /\ LaterLine # {}
    /\ LET k == Min(LaterLine) IN
          /\ out' = Append(out, Unexpected(RangeSeq(li, k - 1)))
          /\ li' = k
    /\ UNCHANGED <<ei, ms, pc, input>>

\* peek_match: neither
PeekNone ==
    /\ PeekCond /\ LaterExp = {} /\ LaterLine = {}
    /\ out' = out \o UnmatchedSeq(ei, ei)
    /\ ei' = ei + 1
    /\ UNCHANGED <<li, ms, pc, input>>

\* after the loop: open run, left-over expectations, left-over lines
TailStep ==
    /\ pc = "loop" /\ ~(ei <= n /\ li <= m)
    /\ LET o1 == IF ms # 0 THEN Append(out, Matched(ei, RangeSeq(ms, li - 1))) ELSE out
           e1 == IF ms # 0 THEN ei + 1 ELSE ei
           o2 == o1 \o UnmatchedSeq(e1, n)
           o3 == IF li <= m THEN Append(o2, Unexpected(RangeSeq(li, m))) ELSE o2
       IN  /\ out' = o3
           /\ ei' = e1
    /\ ms' = 0 /\ pc' = "done"
    /\ UNCHANGED <<li, input>>

Next == \/ MultiYield \/ MultiConsume \/ SingleMatch \/ RunEnd
        \/ PeekExp \/ PeekLine \/ PeekNone \/ TailStep

Spec == Init /\ [][Next]_vars /\ WF_vars(Next)

-----------------------------------------------------------------------------
(* (P) reference semantics: the language e1{q1} ... en{qn} over lines *)

\* expectations that may consume the next line when a *fresh* expectation j
\* is the next in turn: j itself, and whatever follows it if j is optional
FollowFresh[j \in 1..(NE + 2)] ==
    IF j > n THEN {}
    ELSE {j} \cup (IF Opt(j) THEN FollowFresh[j + 1] ELSE {})

\* expectations that may consume the next line after expectation k consumed
\* the previous one (k = 0: nothing consumed yet)
Follow(k) == (IF k > 0 /\ Multi(k) THEN {k} ELSE {}) \cup FollowFresh[k + 1]

\* Reach(l) = the expectations that can have consumed line l in some legal
\* assignment of lines 1..l.  Computed as a table (ReachTab(l)[x + 1] = Reach(x))
\* so that evaluation is linear in l.
RECURSIVE ReachTab(_)
ReachTab(l) ==
    IF l = 0 THEN << {0} >>
    ELSE LET prev == ReachTab(l - 1) IN
         Append(prev, {j \in 1..n : \E k \in prev[l] : j \in Follow(k) /\ Matches(j, l)})
ReachAll == ReachTab(m)
Reach(l) == ReachAll[l + 1]

InLang == \E k \in Reach(m) : \A j \in (k + 1)..n : Opt(j)

\* second, independent definition (recursive descent over expectations):
\* Acc(k, l): lines l..m can be assigned to expectations k..n
RECURSIVE Acc(_, _), Run(_, _)
Run(k, l) ==   \* expectation k (multi) has consumed line l-1 already
    \/ Acc(k + 1, l)
    \/ (l <= m /\ Matches(k, l) /\ Run(k, l + 1))
Acc(k, l) ==
    IF k > n THEN l > m
    ELSE \/ (Opt(k) /\ Acc(k + 1, l))
         \/ (l <= m /\ Matches(k, l) /\
                IF Multi(k) THEN Run(k, l + 1) ELSE Acc(k + 1, l + 1))
InLang2 == Acc(1, 1)

\* one-line-lookahead determinism on the lines that occur
Det == LET tab == ReachAll IN
       \A l \in 1..m : \A k \in tab[l] :
          Cardinality({j \in Follow(k) : Matches(j, l)}) <= 1

-----------------------------------------------------------------------------
(* (P) the properties, as predicates over (input, out) *)

Done    == pc = "done"
HasDiffOf(o) == \E i \in 1..Len(o) : o[i].t # "M"
HasDiff == HasDiffOf(out)

RECURSIVE FlatLines(_)
FlatLines(o) == IF o = <<>> THEN <<>>
                ELSE (IF Head(o).t \in {"M", "X"} THEN Head(o).ls ELSE <<>>) \o FlatLines(Tail(o))

MentionSeq(o) == SelectSeq(o, LAMBDA x : x.t \in {"M", "U"})

\* C02 on a finished result
ConserveOf(o) ==
    /\ FlatLines(o) = RangeSeq(1, m)                            \* every line once, in order
    /\ \A i \in 1..Len(o) :
          /\ o[i].t \in {"M", "U", "X"}
          /\ o[i].t \in {"M", "U"} => o[i].e \in 1..n
          /\ o[i].t = "M" =>
                /\ Len(o[i].ls) >= 1
                /\ \A x \in 1..Len(o[i].ls) : Matches(o[i].e, o[i].ls[x])   \* really matches
                /\ (Len(o[i].ls) > 1 => Multi(o[i].e))
    /\ LET ms_ == MentionSeq(o) IN
          /\ \A i \in 1..(Len(ms_) - 1) : ms_[i].e < ms_[i + 1].e            \* in order, at most once
          /\ \A k \in 1..n : ~Opt(k) => \E i \in 1..Len(ms_) : ms_[i].e = k  \* non-optional: exactly once

Sound    == Done /\ ~HasDiff => InLang                 \* C01
Conserve == Done => ConserveOf(out)                    \* C02
Complete == Done /\ Det => (~HasDiff <=> InLang)       \* C03
RefAgree == Done => (InLang <=> InLang2)                         \* sanity of the reference
Progress == [][ei' + li' > ei + li \/ pc' = "done"]_vars   \* C02: termination measure
Terminates == <>Done

TypeOK == /\ ei \in 1..(n + 1) /\ li \in 1..(m + 1) /\ ms \in 0..m
          /\ pc \in {"loop", "done"}
          /\ (ms # 0 => ei <= n /\ Multi(ei) /\ ms < li)

\* vacuity witnesses (must be *violated* in MC runs: see MC_DiffAlgo_vac.cfg)
NeverDetAccept   == ~(Done /\ Det /\ InLang /\ n >= 2 /\ m >= 2)
NeverNondetFalseFail == ~(Done /\ ~Det /\ InLang /\ HasDiff)
=============================================================================

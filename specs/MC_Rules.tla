--------------------------------- MODULE MC_Rules ---------------------------------
EXTENDS Rules, Json
LineSeq == LET RECURSIVE F(_)
               F(S) == IF S = {} THEN <<>> ELSE LET x == CHOOSE y \in S : TRUE IN <<[l |-> x, x |-> Expected(x)]>> \o F(S \ {x})
           IN F(Cands)
Vector == [kind |-> kind, expr |-> expr, ast |-> ast, fail |-> MustFail, lines |-> LineSeq]
Emit == PrintT(<<"REPLAY", ToJson(Vector)>>)
=============================================================================

------------------------------- MODULE MC_ShellCarrier -------------------------------
EXTENDS ShellCarrier, Json
Emit == (pc = "idle" /\ Len(hist) = MaxTests) => PrintT(<<"REPLAY", ToJson([hist |-> hist, ref |-> ref])>>)
=============================================================================

SPECIFICATION Spec
CONSTANTS
  Tier = "quick"
INVARIANTS TypeOK Agrees
CHECK_DEADLOCK FALSE

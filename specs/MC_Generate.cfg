SPECIFICATION Spec
CONSTANTS
  K = 2
INVARIANTS TypeOK Emit
CHECK_DEADLOCK FALSE

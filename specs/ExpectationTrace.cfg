SPECIFICATION TraceSpec
CONSTANTS
  Tier = "quick"
INVARIANTS Verdicts
POSTCONDITION Accepted
CHECK_DEADLOCK FALSE

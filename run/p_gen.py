"""C09 — Generate: TLC enumerates outputs as sequences of line classes x final newline x exit code x format x
escaper x path; the real generate ; parse ; validate pipeline runs on each; TLC judges every record and names
the case from the spec's class table."""
import json
import os
import time

from lib import *

import concurrent.futures
import shutil
import subprocess
import tempfile


def e2e_create(r):
    """`scrut create` for the command that writes exactly this output, then `scrut test` on the created document"""
    root = tempfile.mkdtemp(prefix="scrut-verif-gen-", dir=os.environ.get("VERIF_SCRATCH", "/tmp"))
    try:
        cmd = "printf '" + "".join("\\%03o" % b for b in r["output_bytes"]) + "'" if r["output_bytes"] else "true"
        if r["code"] != 0:
            cmd += f"; (exit {r['code']})"
        ext = "md" if r["fmt"] == "md" else "t"
        doc = os.path.join(root, "created." + ext)
        env = dict(os.environ, TMPDIR=os.path.join(root, "tmp"), NO_COLOR="1")
        env.pop("SCRUT_VERIF_TRACE", None)
        os.makedirs(env["TMPDIR"])
        c = subprocess.run([SCRUT_BIN, "create", "--no-color", "--format", "markdown" if r["fmt"] == "md" else "cram", "--escaping", r["esc"],
                            "-o", doc, "--", cmd], cwd=root, env=env, stdout=subprocess.PIPE, stderr=subprocess.PIPE, timeout=60)
        if c.returncode != 0 or not os.path.exists(doc):
            return {"ok": False, "stage": "create", "detail": c.stderr.decode("utf-8", "replace")[-200:], "document": ""}
        text = open(doc, errors="replace").read()
        # the escaping mode asked for on the command line is the one in effect: in ascii mode the document is printable ASCII
        if r["esc"] == "ascii" and any(ord(c) > 126 or (ord(c) < 32 and c != "\n") for c in text):
            return {"ok": False, "stage": "create-not-ascii-in-ascii-mode", "detail": repr(text[-200:]), "document": text}
        t = subprocess.run([SCRUT_BIN, "test", "--no-color", "-r", "json", doc], cwd=root, env=env, stdout=subprocess.PIPE, stderr=subprocess.PIPE, timeout=60)
        return {"ok": t.returncode == 0, "stage": "test", "detail": f"exit {t.returncode} " + t.stdout.decode("utf-8", "replace")[:300], "document": text}
    except subprocess.TimeoutExpired:
        return {"ok": False, "stage": "timeout", "detail": "", "document": ""}
    finally:
        shutil.rmtree(root, ignore_errors=True)


def e2e_convert(r):
    """a failing document in the OTHER format, `scrut update --convert <fmt>`, then `scrut test` on the converted document"""
    root = tempfile.mkdtemp(prefix="scrut-verif-gen-", dir=os.environ.get("VERIF_SCRATCH", "/tmp"))
    try:
        cmd = "printf '" + "".join("\\%03o" % b for b in r["output_bytes"]) + "'" if r["output_bytes"] else "true"
        if r["code"] != 0:
            cmd += f"; (exit {r['code']})"
        if r["fmt"] == "md":      # written format is Markdown: the source is Cram
            src, text, dst = "conv.t", f"A Title\n  $ {cmd}\n  OLD-EXPECTATION-LINE\n", "conv.md"
        else:
            src, text, dst = "conv.md", f"# A Title\n\n```scrut\n$ {cmd}\nOLD-EXPECTATION-LINE\n```\n", "conv.t"
        with open(os.path.join(root, src), "w") as f:
            f.write(text)
        env = dict(os.environ, TMPDIR=os.path.join(root, "tmp"), NO_COLOR="1")
        env.pop("SCRUT_VERIF_TRACE", None)
        os.makedirs(env["TMPDIR"])
        c = subprocess.run([SCRUT_BIN, "update", "--no-color", "--assume-yes", "--escaping", r["esc"], "--convert", "markdown" if r["fmt"] == "md" else "cram", src],
                           cwd=root, env=env, stdout=subprocess.PIPE, stderr=subprocess.PIPE, timeout=60)
        doc = os.path.join(root, dst)
        if c.returncode != 0 or not os.path.exists(doc):
            return {"ok": False, "stage": "convert", "detail": (c.stderr.decode("utf-8", "replace") + c.stdout.decode("utf-8", "replace"))[-200:], "document": ""}
        t = subprocess.run([SCRUT_BIN, "test", "--no-color", "-r", "json", dst], cwd=root, env=env, stdout=subprocess.PIPE, stderr=subprocess.PIPE, timeout=60)
        return {"ok": t.returncode == 0, "stage": "test-after-convert", "detail": f"exit {t.returncode} " + t.stdout.decode("utf-8", "replace")[:300], "document": open(doc, errors="replace").read()}
    except subprocess.TimeoutExpired:
        return {"ok": False, "stage": "timeout", "detail": "", "document": ""}
    finally:
        shutil.rmtree(root, ignore_errors=True)


WHAT = "a generated test does not parse back to one test with the same command that passes on the output it was generated from"


def run(prop, tier, replay=None):
    t0 = time.time()
    work = workdir(f"{prop}-{tier}")
    build_s = build(need_scrut_bin=True)
    V = Verdicts(prop)
    s = seed()
    cov = {}
    k = 2 if tier == "quick" else 3
    if replay:
        with open(replay) as f:
            body = json.load(f)
        vectors = [body["replay"]["vector"]]
        states = trans = 0
    else:
        cfg = os.path.join(work, "MC.cfg")
        with open(cfg, "w") as f:
            f.write(f"SPECIFICATION Spec\nCONSTANTS\n  K = {k}\nINVARIANTS TypeOK Emit\nCHECK_DEADLOCK FALSE\n")
        res = tlc("MC_Generate", cfg, work, workers=min(NCPU, 12), timeout=3000,
                  line_filter=lambda l: l.startswith('<<"REPLAY"') or l.startswith("Error") or "violated" in l)
        tlc_must_pass(res, "Generate MC/GEN")
        vectors = [json.loads(t) for t in sorted({f[0] for f in res.printed("REPLAY")})]
        for i, v in enumerate(vectors):
            v["id"] = i + 1
            v["seed"] = s
        states, trans = res.distinct, res.generated
        log(f"GEN Generate: {len(vectors)} (output shape, exit code, format, escaper, path) cases with <= {k} lines over 26 line classes, {res.wall:.0f}s")
    vpath, rpath = os.path.join(work, "vectors.ndjson"), os.path.join(work, "records.ndjson")
    write_ndjson(vpath, vectors)
    harness(["gen-replay", "--vectors", vpath, "--records", rpath, "--seed", s])
    records = read_ndjson(rpath)
    # update_pass / convert_pass start from the test `create` writes: where that test does not pass (the create path
    # reports it) there is nothing to write again
    nskip = sum(1 for r in records if r["ev"] == "Skip")
    records = [r for r in records if r["ev"] != "Skip"]
    cov["pass_paths_without_a_passing_start"] = nskip
    # end to end: for `create` cases, really run `scrut create` and then `scrut test` on what it wrote; the observation
    # "passes" is the conjunction of the library pipeline and the real run
    import random
    rnd = random.Random(s * 13 + 1)
    cand = [r for r in records if r["path"] == "create" and r["obs"]["passes"] and r["obs"]["same_cmd"]]
    sample = cand if replay else rnd.sample(cand, min(len(cand), 120 if tier == "quick" else 1500))
    with concurrent.futures.ThreadPoolExecutor(max_workers=min(NCPU, 12)) as ex:
        for r, e in zip(sample, ex.map(e2e_create, sample)):
            r["e2e"] = e
            if not e["ok"]:
                r["obs"]["passes"] = False
                r["obs"]["detail"] = f"end to end ({e['stage']}): {e['detail']}"
                r["obs"]["text"] = e["document"] or r["obs"]["text"]
    cov["end_to_end_create_then_test"] = len(sample)
    cand = [r for r in records if r["path"] == "convert" and r["obs"]["passes"] and r["obs"]["same_cmd"]]
    sample = cand if replay else rnd.sample(cand, min(len(cand), 60 if tier == "quick" else 800))
    with concurrent.futures.ThreadPoolExecutor(max_workers=min(NCPU, 12)) as ex:
        for r, e in zip(sample, ex.map(e2e_convert, sample)):
            r["e2e"] = e
            if not e["ok"]:
                r["obs"]["passes"] = False
                r["obs"]["detail"] = f"end to end ({e['stage']}): {e['detail']}"
                r["obs"]["text"] = e["document"] or r["obs"]["text"]
    cov["end_to_end_convert_then_test"] = len(sample)
    tcfg = os.path.join(work, "Trace.cfg")
    with open(tcfg, "w") as f:
        f.write(f"SPECIFICATION TraceSpec\nCONSTANTS\n  K = {k}\nINVARIANTS Verdicts\nPOSTCONDITION Accepted\nCHECK_DEADLOCK FALSE\n")
    keep = ("ev", "id", "lines", "lastEol", "code", "fmt", "esc", "path")
    results, printed = tlc_validate_sharded("GenerateTrace", tcfg, records, work, shards=min(NCPU, 12),
                                            slim=lambda r: dict({x: r[x] for x in keep}, obs={x: r["obs"][x] for x in ("generated", "parsed", "ntests", "same_cmd", "passes")}))
    for r in results:
        tlc_must_pass(r, "GenerateTrace VAL")
    validated = sum(r.distinct - 1 for r in results)
    if validated != len(records):
        raise ToolError(f"trace validation consumed {validated} of {len(records)} records")
    byid = {r["id"]: r for r in records}
    vecs = {v["id"]: v for v in vectors}
    def stage_of(o):
        return "generator" if not o["generated"] else "parse" if not o["parsed"] else f"ntests={o['ntests']}" if o["ntests"] != 1 \
            else "command-changed" if not o["same_cmd"] else "does-not-pass"
    failing = {rid: json.loads(special) for _p, rid, special in printed["VERDICT"]}
    # root causes: a class whose one-line output already fails (for the same format / escaper / path)
    single = {}
    for rid in failing:
        r = byid[rid]
        if len(r["lines"]) == 1:
            single.setdefault((r["fmt"], r["esc"], r["path"], r["lines"][0]), set()).add(stage_of(r["obs"]))
    single_any = {}
    for (f, e, p, c), st in single.items():
        single_any.setdefault((f, c), set()).update(st)
    for rid, sp in failing.items():
        r = byid[rid]
        o = r["obs"]
        culprits = sorted({c for c in r["lines"] if (r["fmt"], c) in single_any})
        if "e2e" in r and not r["e2e"]["ok"] and r["path"] == "convert" and r["fmt"] == "cram" and r["e2e"]["stage"] == "test-after-convert" \
                and bytes(r["output_bytes"]).find(b"\r\n") >= 0:
            # Markdown -> Cram: the source ran with CR LF normalised, the Cram document (which cannot carry configuration) keeps CR LF
            keys = ["end-to-end:convert:md-to-cram:output-with-CRLF-line-ending"]
        elif "e2e" in r and not r["e2e"]["ok"]:
            specials = sorted({c for c in r["lines"] if c != "plain"})
            keys = [f"end-to-end:{r['path']}:{r['e2e']['stage']}:fmt={r['fmt']};classes={'+'.join(specials) or 'plain'};{'no-final-eol;' if not r['lastEol'] else ''}esc={r['esc']};code={r['code']}"]
        elif culprits:
            keys = [f"fmt={r['fmt']};class={c};{'/'.join(sorted(single_any[(r['fmt'], c)]))}" for c in culprits]
        else:
            specials = sorted({c for c in r["lines"] if c != "plain"})
            keys = [f"fmt={r['fmt']};combination={'+'.join(specials) or 'plain'};{'no-final-eol;' if not r['lastEol'] else ''}esc={r['esc']};path={r['path']};{stage_of(o)}"]
        for key in keys:
            V.violation(key, WHAT, {"vector": vecs.get(rid, {k2: r[k2] for k2 in keep if k2 != "ev"}), "output": r["output"], "output_bytes": r["output_bytes"],
                                    "command": r["command"], "generated_text": o["text"], "detail": o["detail"], "first_special": sp})
    code, nviol, known = V.finish()
    if not replay:
        cov.update({
            "states": states, "transitions": max(trans, 1), "traces_validated_against_impl": validated,
            "samples": [{"output": r["output"], "fmt": r["fmt"], "esc": r["esc"], "path": r["path"], "generated": r["obs"]["text"]} for r in records[7000:7002]],
            "evaluations": len(records),
            "distinct_nontrivial": len({(r["output"], r["code"], r["fmt"], r["esc"], r["path"]) for r in records if len(r["lines"]) >= 1}),
            "rule": "one evaluation = generate + parse + validate for one (output bytes, exit code, format, escaper, path); non-trivial = at least one output line; distinct by those five",
            "known_findings_seen": known, "build_s": round(build_s, 1), "exhaustive": True,
        })
        write_evidence(prop, tier, "model_checking", cov,
                       ["TLC", "one concrete representative per line class and record (2-4 per class, chosen by seed)",
                        "library path (the generators and parsers that `scrut create` / `update` call); the CLI wiring itself is exercised by C10's end-to-end sample"],
                       time.time() - t0, nviol)
    log(f"{prop}: {validated} pipelines validated by TLC, {nviol} violation(s), {time.time()-t0:.0f}s")
    return code

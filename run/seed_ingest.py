#!/usr/bin/env python3
"""Confirm a seeded change delivered by a sub-agent and store it under /verif/seeded/<id><variant>/.

usage: seed_ingest.py <prop-id> <variant> [--demo-kind rs|sh] [--checks C01,C02]

Steps (in a scratch worktree /tmp/sv of /repo HEAD, removed by --cleanup):
  1. the demonstration passes on the unmodified tree
  2. the patch applies; the tree compiles; the pinned suite passes with it
  3. the demonstration fails with the patch
Then (optionally) runs the named /verif checks with the patch applied to /repo itself and reverts.
"""
import json
import os
import shutil
import subprocess
import sys
import time

SV = os.environ.get("SEED_SV", "/tmp/sv")
VERIF = "/verif"


def sh(cmd, cwd=None, timeout=3600):
    r = subprocess.run(cmd, shell=True, cwd=cwd, stdout=subprocess.PIPE, stderr=subprocess.STDOUT, text=True, timeout=timeout)
    return r.returncode, r.stdout


def ensure_sv():
    head = subprocess.check_output(["git", "-C", "/repo", "rev-parse", "HEAD"], text=True).strip()
    if not os.path.isdir(SV):
        sh(f"git -C /repo worktree add -q --detach {SV} {head}")
    sh(f"git checkout -q --detach {head} && git checkout -q -- . && git clean -fdq -e target -e OUT", cwd=SV)
    return head


def main():
    if sys.argv[1] == "--cleanup":
        sh(f"git -C /repo worktree remove --force {SV}")
        return
    pid, var = sys.argv[1], sys.argv[2]
    prop_override = sys.argv[sys.argv.index("--property") + 1] if "--property" in sys.argv else None
    checks = []
    if "--checks" in sys.argv:
        checks = sys.argv[sys.argv.index("--checks") + 1].split(",")
    out = f"/tmp/seed/{pid}/OUT"
    patch = f"{out}/{var}.patch.diff"
    demos = [f for f in os.listdir(out) if f.startswith(f"{var}.demo")]
    assert demos, "no demo file"
    demo = demos[0]
    head = ensure_sv()
    meta = {"property": prop_override or pid, "variant": var, "repo_head": head, "ran": []}

    def demo_run(label):
        if demo.endswith(".rs"):
            os.makedirs(f"{SV}/tests", exist_ok=True)
            name = f"seed_{pid.lower()}_{var}_demo"
            shutil.copy(f"{out}/{demo}", f"{SV}/tests/{name}.rs")
            code, o = sh(f"cargo test --offline --test {name} 2>&1 | tail -15", cwd=SV)
            ok = "test result: ok" in o and "FAILED" not in o
            cmd = f"cargo test --offline --test {name}"
            os.remove(f"{SV}/tests/{name}.rs")
        else:
            os.makedirs(f"{SV}/OUT", exist_ok=True)
            for f_ in os.listdir(out):      # demos may use companion files (cli/*.md ...)
                src = f"{out}/{f_}"
                if os.path.isdir(src):
                    shutil.copytree(src, f"{SV}/OUT/{f_}", dirs_exist_ok=True)
                else:
                    shutil.copy(src, f"{SV}/OUT/{f_}")
            sh("cargo build --offline -q", cwd=SV)
            # some demos take the worktree as their only argument, others the binary (default ./target/debug/scrut)
            dtext = open(f"{out}/{demo}").read()
            arg = SV if 'ROOT="${1:-' in dtext else (f"{SV}/target/debug/scrut" if 'SCRUT="${1:-' in dtext or 'BIN="${1:-' in dtext or 'SCRUT=${1:-' in dtext or 'BIN=${1:-' in dtext else "")
            code, o = sh(f"bash -c 'SCRUT_BIN={SV}/target/debug/scrut bash OUT/{demo} {arg} > /tmp/sv_demo.out 2>&1; echo EXIT=$?'; tail -15 /tmp/sv_demo.out", cwd=SV)
            ok = "EXIT=0" in o
            cmd = f"bash OUT/{demo}"
        meta["ran"].append({"what": label, "cmd": cmd, "passed": ok, "tail": o[-600:]})
        return ok

    ok_clean = demo_run("demonstration on unmodified tree (must pass)")
    code, o = sh(f"git apply --check {patch} && git apply {patch}", cwd=SV)
    meta["ran"].append({"what": "git apply", "cmd": f"git apply {var}.patch.diff", "passed": code == 0, "tail": o[-300:]})
    if code != 0:
        print("PATCH DOES NOT APPLY", o)
        print(json.dumps(meta, indent=1)[:1500])
        sys.exit(1)
    code, o = sh("cargo nextest run --workspace --no-fail-fast --offline 2>&1 | tail -4", cwd=SV)
    suite_ok = "166 passed" in o or ("passed" in o and "failed" not in o.lower().replace("no-fail-fast", ""))
    meta["ran"].append({"what": "pinned suite with the change (must pass)", "cmd": "cargo nextest run --workspace --no-fail-fast --offline", "passed": suite_ok, "tail": o[-400:]})
    ok_mut = demo_run("demonstration with the change (must fail)")
    sh("git checkout -q -- . && git clean -fdq -e target -e OUT", cwd=SV)
    confirmed = ok_clean and suite_ok and not ok_mut
    meta["confirmed"] = confirmed
    print(f"{pid}{var}: demo_clean_pass={ok_clean} suite_pass={suite_ok} demo_mut_fails={not ok_mut} => confirmed={confirmed}")
    if not confirmed:
        print(json.dumps([{k: (v[-300:] if k == "tail" else v) for k, v in r.items()} for r in meta["ran"]], indent=1)[-1800:])
        sys.exit(1)
    # store
    d = f"{VERIF}/seeded/{pid}{var}"
    os.makedirs(d, exist_ok=True)
    shutil.copy(patch, f"{d}/patch.diff")
    shutil.copy(f"{out}/{demo}", f"{d}/{demo.replace(var + '.', '', 1)}")
    for extra in os.listdir(out):
        if extra.startswith(f"{var}.") and extra not in (demo, f"{var}.patch.diff"):
            shutil.copy(f"{out}/{extra}", f"{d}/{extra.replace(var + '.', '', 1)}")
    notes = open(f"{out}/notes.md").read() if os.path.exists(f"{out}/notes.md") else ""
    meta["breaks"] = prop_override or pid
    meta["needs_to_manifest"] = "see notes.md (section for variant %s)" % var
    with open(f"{d}/notes.md", "w") as f:
        f.write(notes)
    # run my checks against it -- in an isolated pair (scratch worktree with the patch + a copy of /verif whose harness
    # depends on that worktree), so that /repo itself is never touched and background runs are not disturbed
    results = {}
    if checks:
        MV = os.environ.get("SEED_MV", "/tmp/mut/verif")
        os.makedirs(os.path.dirname(MV), exist_ok=True)
        sh(f"rsync -a --delete --exclude work --exclude harness/target --exclude replays --exclude .git {VERIF}/ {MV}/")
        sh(f"sed -i 's#path = \"/repo\"#path = \"{SV}\"#' {MV}/harness/Cargo.toml")
        code, o = sh(f"git apply {patch}", cwd=SV)
        if code != 0:
            print("cannot apply to scratch worktree", o)
            sys.exit(1)
        try:
            for c in checks:
                t0 = time.time()
                code, o = sh(f"VERIF_NO_EVIDENCE=1 VERIF_REPO={SV} python3 run/check.py {c} --tier quick", cwd=MV, timeout=3000)
                lines = [l for l in o.splitlines() if l.startswith(("VIOLATION", "TOOL-ERROR", "DRIFT")) or l.startswith("  key=")]
                results[c] = {"exit": code, "wall_s": round(time.time() - t0), "lines": lines[:8]}
                print(f"  check {c}: exit={code}  " + " | ".join(lines[:3])[:300])
        finally:
            sh("git checkout -q -- . && git clean -fdq -e target -e OUT", cwd=SV)
    meta["checks_quick"] = results
    meta["detected_by"] = [c for c, r in results.items() if r["exit"] == 1]
    with open(f"{d}/meta.json", "w") as f:
        json.dump(meta, f, indent=1)


if __name__ == "__main__":
    main()

"""C13 — Capture: TLC checks the CR LF replacement algorithm, the template substitution and the divider protocol against the
documented recorded stream and enumerates payload / configuration / executor combinations; each is run through the real
StatefulExecutor (one process per test case) or BashScriptExecutor (single script); TLC compares the recorded bytes."""
import json
import os
import subprocess
import time

from lib import *

WHAT = "recorded stdout / stderr / exit code differ from what the command wrote, beyond the documented CR LF and ANSI transformations (or the expression did not reach the shell verbatim)"


def run(prop, tier, replay=None):
    t0 = time.time()
    work = workdir(f"{prop}-{tier}")
    build_s = build()
    V = Verdicts(prop)
    cov = {}
    if replay:
        with open(replay) as f:
            body = json.load(f)
        vectors = [body["replay"]["vector"]] if "vector" in body["replay"] else []
        states = trans = 0
    else:
        cfg = os.path.join(work, "MC.cfg")
        with open(cfg, "w") as f:
            f.write(f'SPECIFICATION Spec\nCONSTANTS\n  Tier = "{tier}"\nINVARIANTS CrlfAlgoOK VerbatimOK DividerOK Emit\nCHECK_DEADLOCK FALSE\n')
        res = tlc("MC_Capture", cfg, work, workers=min(NCPU, 8), timeout=3000,
                  line_filter=lambda l: l.startswith('<<"REPLAY"') or l.startswith("Error") or "violated" in l)
        tlc_must_pass(res, "Capture MC")
        vectors = [json.loads(t) for t in sorted({f[0] for f in res.printed("REPLAY")})]
        for i, v in enumerate(vectors):
            v["id"] = i + 1
        states, trans = res.distinct, res.generated
        log(f"MC Capture[{tier}]: {res.distinct} cases; CR LF algorithm = reference, expression verbatim under the intended substitution order, divider protocol splits correctly, {res.wall:.0f}s")
    vpath, rpath = os.path.join(work, "vectors.ndjson"), os.path.join(work, "records.ndjson")
    write_ndjson(vpath, vectors)
    records = []
    if vectors:
        harness(["capture-replay", "--vectors", vpath, "--records", rpath], timeout=3000)
        records = read_ndjson(rpath)
    tcfg = os.path.join(work, "Trace.cfg")
    with open(tcfg, "w") as f:
        f.write(f'SPECIFICATION TraceSpec\nCONSTANTS\n  Tier = "{tier}"\nINVARIANTS Verdicts\nPOSTCONDITION Accepted\nCHECK_DEADLOCK FALSE\n')
    results, printed = tlc_validate_sharded("CaptureTrace", tcfg, records, work, shards=min(NCPU, 6),
                                            slim=lambda r: {k: r[k] for k in ("ev", "id", "tests", "keep", "strip", "stream", "exec")} | {"obs": {k: r["obs"][k] for k in ("result", "out", "err", "code")}})
    for r in results:
        tlc_must_pass(r, "CaptureTrace VAL")
    validated = sum(r.distinct - 1 for r in results)
    if validated != len(records):
        raise ToolError(f"trace validation consumed {validated} of {len(records)} records")
    byid = {r["id"]: r for r in records}
    vec = {v["id"]: v for v in vectors}
    for _p, rid in printed["VERDICT"]:
        r = byid[rid]
        o = r["obs"]
        toks = sorted({t for tc in r["tests"] for t in tc["payload"] + tc["err"] if t.startswith("P:") or t.startswith("DIV")})
        feats = []
        if toks:
            feats.append("text=" + "+".join(toks))
        allt = [t for tc in r["tests"] for t in tc["payload"] + tc["err"]]
        if r["strip"] == "true":
            feats.append("strip_ansi" + ("+CR" if "CR" in allt else "") + ("+NUL" if "NUL" in allt else "") + ("+HI" if "HI" in allt else ""))
        if o["result"] != "ok":
            why = o["result"] + ":" + o["detail"][:50]
        elif o["code"] != [tc["code"] for tc in r["tests"]]:
            why = "exit-code"
        else:
            why = "bytes"
        key = f"{r['exec']}:{why}:{'/'.join(feats) or 'plain'}" + (f":stream={r['stream']}" if len(r["tests"]) > 1 or any(tc["err"] for tc in r["tests"]) else "")
        if why == "bytes" and r["strip"] == "true" and not toks and any(t in allt for t in ("CR", "NUL", "HI")):
            key = f"{r['exec']}:strip_ansi_escaping-removes-bytes-that-are-not-ANSI-sequences"
        if r["exec"] == "cram" and o["result"] == "err" and any(t.startswith("DIV") for t in toks):
            key = "cram:payload-contains-divider-text"
        V.violation(key,
                    WHAT, {"vector": vec.get(rid), "commands": r["commands"], "observed": o})
    # large outputs: own process per size (a stack overflow aborts the process)
    big = []
    sizes = [100_000] if tier == "quick" else [100_000, 2_000_000]
    if not replay or not vectors:
        for n in sizes:
            bpath = os.path.join(work, f"big{n}.ndjson")
            r = harness(["capture-big", "--records", bpath, "--lines", n], timeout=1200, check=False)
            got = read_ndjson(bpath) if os.path.exists(bpath) else []
            big += got
            if r.returncode != 0:
                done = {g["what"] for g in got}
                V.violation(f"big:process-died(exit {r.returncode}) after {len(done)} of 4 steps with {n} lines", WHAT,
                            {"lines": n, "completed": sorted(done), "stderr": r.stderr[-300:]})
            for g in got:
                if not g["ok"]:
                    V.violation("big:" + g["what"], WHAT, g)
    code, nviol, known = V.finish()
    if not replay:
        cov.update({
            "states": states, "transitions": max(trans, 1), "traces_validated_against_impl": validated,
            "samples": [{"commands": r["commands"], "config": {k: r[k] for k in ("keep", "strip", "stream", "exec")}, "recorded": r["obs"]["out"]} for r in records[2000:2002]],
            "evaluations": len(records) + len(big),
            "distinct_nontrivial": len({json.dumps([r["tests"], r["keep"], r["strip"], r["stream"], r["exec"]], sort_keys=True) for r in records if any(tc["payload"] or tc["err"] for tc in r["tests"])}),
            "rule": "one evaluation = one sequence of 1-2 commands run by one of the two real executors with one configuration, recorded bytes mapped back to tokens; non-trivial = some payload; distinct by (tests, config, executor). Plus large-output runs.",
            "large_output_steps": [g["what"] + (" ok" if g["ok"] else " FAILED") for g in big],
            "known_findings_seen": known, "build_s": round(build_s, 1), "exhaustive": True,
        })
        write_evidence(prop, tier, "model_checking", cov,
                       ["TLC", "bash / printf / yes / head write what they are told to", "special texts are written from single-quoted literals in the expression, so a rewritten expression shows up as different bytes"],
                       time.time() - t0, nviol)
    log(f"{prop}: {validated} executions validated by TLC, {len(big)} large-output steps, {nviol} violation(s), {time.time()-t0:.0f}s")
    return code

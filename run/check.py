#!/usr/bin/env python3
"""usage: check.py <property-id> [--tier quick|thorough] [--replay <file>]"""
import os
import sys

sys.path.insert(0, os.path.dirname(os.path.abspath(__file__)))
import lib

PIPELINES = {
    "C01": "p_diff", "C02": "p_diff", "C03": "p_diff",
    "C04": "p_rules",
    "C06": "p_md", "C07": "p_cram", "C08": "p_expect", "C09": "p_gen", "C10": "p_update", "C12": "p_shell", "C13": "p_capture", "C16": "p_config", "C17": "p_yaml", "C18": "p_workdirs", "C19": "p_render", "C11": "p_escape",
    "C05": "p_e2e", "C14": "p_e2e", "C15": "p_e2e", "C20": "p_e2e",
}


def main():
    args = sys.argv[1:]
    if not args:
        print(__doc__)
        sys.exit(2)
    prop = args[0]
    tier = os.environ.get("VERIF_TIER", "quick")
    replay = None
    if "--tier" in args:
        tier = args[args.index("--tier") + 1]
    if "--replay" in args:
        replay = args[args.index("--replay") + 1]
    if tier not in ("quick", "thorough"):
        lib.tool_error(f"unknown tier {tier}")
    if prop not in PIPELINES:
        lib.tool_error(f"no check for {prop}")
    mod = __import__(PIPELINES[prop])
    try:
        code = mod.run(prop, tier, replay)
    except lib.ToolError as e:
        lib.tool_error(str(e))
    except SystemExit:
        raise
    except BaseException as e:      # a defect of the machinery itself is a tool error (exit 2), never an alarm (exit 1)
        import traceback
        traceback.print_exc()
        lib.tool_error(f"internal error in the {PIPELINES[prop]} pipeline: {type(e).__name__}: {e}")
    sys.exit(code)


if __name__ == "__main__":
    main()

#!/bin/sh
# Build the verification framework from files on disk only (offline).
set -e
cd "$(dirname "$0")/.."
export CARGO_NET_OFFLINE=true
mkdir -p work evidence replays
[ -f harness/Cargo.lock ] || cp /repo/Cargo.lock harness/Cargo.lock
(cd harness && cargo build --offline --quiet)
(cd harness && cargo build --offline --quiet --features verif --bin scrut --manifest-path /repo/Cargo.toml --target-dir "$PWD/target")
java -cp /opt/veriftools/tla/tla2tools.jar:/opt/veriftools/tla/CommunityModules-deps.jar tla2sany.SANY specs/DiffAlgo.tla >/dev/null
echo "setup ok"

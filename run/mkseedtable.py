#!/usr/bin/env python3
"""prints the markdown table of seeded changes (from seeded/*/meta.json) for DESIGN.md"""
import json, os, glob
rows = []
for d in sorted(glob.glob(os.path.join(os.path.dirname(os.path.dirname(os.path.abspath(__file__))), "seeded", "*"))):
    m = json.load(open(os.path.join(d, "meta.json")))
    notes = open(os.path.join(d, "notes.md")).read() if os.path.exists(os.path.join(d, "notes.md")) else ""
    name = os.path.basename(d)
    first = [c for c, r in m.get("checks_quick", {}).items() if r["exit"] == 1]
    later = [c for c in m.get("detected_by", []) if c not in first]
    det = ", ".join(first + [c + " (after extension)" for c in later]) or "-"
    files = sorted({l.split(" b/")[1].strip() for l in open(os.path.join(d, "patch.diff")) if l.startswith("diff --git")})
    rows.append((name, m["property"], ", ".join(files), det, m.get("history", "detected by the first version of the check")))
print("| seed | breaks | files changed | detected by (quick) | history |")
print("|---|---|---|---|---|")
for r in rows:
    print("| " + " | ".join(r) + " |")

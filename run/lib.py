"""Shared infrastructure of the /verif checks: build, TLC invocation, trace sharding, verdict
classification (VIOLATION / KNOWN-FINDING / DRIFT), evidence and replay files.

Exit codes of a check: 0 = property held on everything explored (known findings are printed),
1 = VIOLATION (a line `VIOLATION property=<id> replay=<path>` is printed), 2 = error of the
verification machinery itself (never used to hide a property failure).
"""
import concurrent.futures
import fcntl
import hashlib
import json
import os
import re
import shutil
import subprocess
import sys
import time

VERIF = os.path.dirname(os.path.dirname(os.path.abspath(__file__)))
REPO = os.environ.get("VERIF_REPO", "/repo")
SPECS = os.path.join(VERIF, "specs")
HARNESS = os.path.join(VERIF, "harness")
WORKROOT = os.path.join(VERIF, "work")
EVIDENCE = os.path.join(VERIF, "evidence")
REPLAYS = os.path.join(VERIF, "replays")
HARNESS_BIN = os.path.join(HARNESS, "target", "debug", "scrut-verif")
SCRUT_BIN = os.path.join(HARNESS, "target", "debug", "scrut")
NCPU = os.cpu_count() or 4

TLA_CP = "/opt/veriftools/tla/tla2tools.jar:/opt/veriftools/tla/CommunityModules-deps.jar"


class ToolError(Exception):
    pass


def log(msg):
    print(msg, flush=True)


def tool_error(msg):
    log(f"TOOL-ERROR: {msg}")
    sys.exit(2)


def seed():
    try:
        return int(os.environ.get("VERIF_SEED", "0"))
    except ValueError:
        return 0


def workdir(name):
    d = os.path.join(WORKROOT, name)
    shutil.rmtree(d, ignore_errors=True)
    os.makedirs(d, exist_ok=True)
    return d


# ------------------------------------------------------------------------------------------------
# build (always from /repo's current working tree; cargo decides what is stale)

def _cargo_env():
    env = dict(os.environ)
    env["CARGO_NET_OFFLINE"] = "true"
    env.pop("RUSTFLAGS", None)
    return env


HARNESS_BROKEN = [False]     # set by build(allow_broken_harness=True) when the harness does not compile against /repo


def build(need_scrut_bin=False, allow_broken_harness=False):
    """Build the harness (path dependency on /repo, feature `verif`) and optionally the scrut binary
    with the hooks enabled. Serialised by a lock file so that concurrent checks share one build.
    allow_broken_harness: a check that also has a leg driving only the scrut binary goes on with that leg when the harness
    no longer compiles against /repo's library (an internal signature changed): a violation that leg finds is reported,
    otherwise the check still ends as a tool error (exit 2)."""
    os.makedirs(WORKROOT, exist_ok=True)
    t0 = time.time()
    with open(os.path.join(WORKROOT, ".build.lock"), "w") as lock:
        fcntl.flock(lock, fcntl.LOCK_EX)
        lockfile = os.path.join(HARNESS, "Cargo.lock")
        if not os.path.exists(lockfile):
            shutil.copy(os.path.join(REPO, "Cargo.lock"), lockfile)
        r = subprocess.run(
            ["cargo", "build", "--offline", "--quiet"],
            cwd=HARNESS, env=_cargo_env(), stdout=subprocess.PIPE, stderr=subprocess.STDOUT, text=True)
        if r.returncode != 0:
            log(r.stdout[-4000:])
            if not (allow_broken_harness and need_scrut_bin):
                tool_error("harness build failed (does /repo still compile with --features verif?)")
            log("harness build failed; going on with the legs that drive only the scrut binary")
            HARNESS_BROKEN[0] = True
        if need_scrut_bin:
            r = subprocess.run(
                ["cargo", "build", "--offline", "--quiet", "--features", "verif", "--bin", "scrut",
                 "--manifest-path", os.path.join(REPO, "Cargo.toml"),
                 "--target-dir", os.path.join(HARNESS, "target")],
                cwd=HARNESS, env=_cargo_env(), stdout=subprocess.PIPE, stderr=subprocess.STDOUT, text=True)
            if r.returncode != 0:
                log(r.stdout[-4000:])
                tool_error("scrut binary build failed")
    return time.time() - t0


def harness(args, timeout=1800, env=None, check=True):
    e = dict(os.environ)
    if env:
        e.update(env)
    try:
        r = subprocess.run([HARNESS_BIN] + [str(a) for a in args], stdout=subprocess.PIPE,
                           stderr=subprocess.PIPE, text=True, timeout=timeout, env=e)
    except subprocess.TimeoutExpired:
        raise ToolError(f"harness {args[0]} timed out after {timeout}s")
    if check and r.returncode != 0:
        raise ToolError(f"harness {args[0]} exited {r.returncode}: {r.stderr[-2000:]}")
    return r


# ------------------------------------------------------------------------------------------------
# TLC

_UNESC = re.compile(r'\\(.)')


def tla_unescape(s):
    return _UNESC.sub(lambda m: {"n": "\n", "t": "\t", "r": "\r", "f": "\f"}.get(m.group(1), m.group(1)), s)


class TlcResult:
    def __init__(self):
        self.lines = []
        self.generated = 0
        self.distinct = 0
        self.depth = 0
        self.actions = {}      # name -> (distinct, generated)
        self.ok = False        # "Model checking completed. No error has been found."
        self.error = ""        # first error text
        self.wall = 0.0
        self.cmd = ""

    def printed(self, tag):
        """values printed with PrintT(<<tag, ...>>): returns list of lists of raw fields (strings unescaped)"""
        out = []
        prefix = f'<<"{tag}", '
        for l in self.lines:
            if l.startswith(prefix) and l.endswith(">>"):
                out.append(_split_tuple(l[2:-2])[1:])
        return out


def _split_tuple(body):
    """split the body of a printed TLA+ tuple at top-level commas; strings are unescaped, numbers
    converted, everything else kept as text"""
    fields, cur, depth, instr, i = [], [], 0, False, 0
    while i < len(body):
        c = body[i]
        if instr:
            cur.append(c)
            if c == "\\":
                i += 1
                cur.append(body[i])
            elif c == '"':
                instr = False
        else:
            if c == '"':
                instr = True
                cur.append(c)
            elif c in "<[{(":
                depth += 1
                cur.append(c)
            elif c in ">]})":
                depth -= 1
                cur.append(c)
            elif c == "," and depth == 0:
                fields.append("".join(cur).strip())
                cur = []
            else:
                cur.append(c)
        i += 1
    if cur:
        fields.append("".join(cur).strip())
    out = []
    for f in fields:
        if len(f) >= 2 and f[0] == '"' and f[-1] == '"':
            out.append(tla_unescape(f[1:-1]))
        elif re.fullmatch(r"-?\d+", f):
            out.append(int(f))
        elif f in ("TRUE", "FALSE"):
            out.append(f == "TRUE")
        else:
            out.append(f)
    return out


_ACTION = re.compile(r"^<(\w+) line \d+, col \d+ to line \d+, col \d+ of module (\w+)>: (\d+):(\d+)")


def tlc(module, cfg, work, workers=1, env=None, timeout=3600, coverage=False, simulate=None,
        depth_first=False, xmx=None, extra=None, keep_lines=True, line_filter=None):
    """Run TLC on specs/<module>.tla with specs/<cfg>. Returns TlcResult. `line_filter`, if given,
    decides which stdout lines are kept (statistics are always parsed)."""
    meta = os.path.join(work, "meta_" + cfg.replace(".cfg", "") + "_" + hashlib.sha1(
        json.dumps([module, cfg, sorted((env or {}).items())]).encode()).hexdigest()[:8])
    shutil.rmtree(meta, ignore_errors=True)
    # TLC creates a scratch directory under java.io.tmpdir for every run: keep it inside the check's work directory
    jtmp = os.path.join(work, "jtmp")
    os.makedirs(jtmp, exist_ok=True)
    jopts = ["-XX:+UseParallelGC", "-Xss1g", f"-Djava.io.tmpdir={jtmp}"]
    if xmx:
        jopts.append(f"-Xmx{xmx}")
    if depth_first:
        jopts.append("-Dtlc2.tool.queue.IStateQueue=StateDeque")
    cmd = ["java"] + jopts + ["-cp", TLA_CP, "tlc2.TLC", "-workers", str(workers), "-metadir", meta,
                              "-cleanup", "-noGenerateSpecTE"]
    if coverage:
        cmd += ["-coverage", "1"]
    if simulate:
        cmd += ["-simulate", simulate]
    if extra:
        cmd += extra
    cmd += ["-config", cfg, module + ".tla"]
    e = dict(os.environ)
    e.pop("JAVA_TOOL_OPTIONS", None)
    if env:
        e.update({k: str(v) for k, v in env.items()})
    res = TlcResult()
    res.cmd = " ".join(cmd[cmd.index("tlc2.TLC"):])
    t0 = time.time()
    try:
        p = subprocess.Popen(cmd, cwd=SPECS, env=e, stdout=subprocess.PIPE, stderr=subprocess.STDOUT, text=True,
                             errors="replace")
        deadline = t0 + timeout
        for line in p.stdout:
            line = line.rstrip("\n")
            m = _ACTION.match(line)
            if m:
                res.actions[m.group(1)] = (int(m.group(3)), int(m.group(4)))
            elif "states generated," in line and "distinct states found" in line and "Progress" not in line:
                m2 = re.search(r"(\d+) states generated, (\d+) distinct states found", line)
                if m2:
                    res.generated, res.distinct = int(m2.group(1)), int(m2.group(2))
            elif line.startswith("The depth of the complete state graph search is"):
                res.depth = int(re.search(r"is (\d+)", line).group(1))
            elif "Model checking completed. No error has been found." in line:
                res.ok = True
            elif line.startswith("Error:") and not res.error:
                res.error = line
            if keep_lines and (line_filter is None or line_filter(line)):
                res.lines.append(line)
            if time.time() > deadline:
                p.kill()
                raise ToolError(f"TLC {module}/{cfg} timed out after {timeout}s")
        p.wait()
    finally:
        shutil.rmtree(meta, ignore_errors=True)
    res.wall = time.time() - t0
    return res


def tlc_must_pass(res, what):
    if not res.ok:
        tail = "\n".join(res.lines[-40:])
        raise ToolError(f"{what}: TLC did not complete cleanly ({res.error})\n{tail}")


def write_ndjson(path, records):
    with open(path, "w") as f:
        for r in records:
            f.write(json.dumps(r, ensure_ascii=False, separators=(",", ":")))
            f.write("\n")


def read_ndjson(path):
    out = []
    with open(path, errors="replace") as f:
        for l in f:
            l = l.strip()
            if l:
                out.append(json.loads(l))
    return out


def tlc_validate_sharded(module, cfg, records, work, shards=8, slim=None, timeout=3600, depth_first=True,
                         tags=("VERDICT",), extra_env=None):
    """Validate implementation records with a trace spec, `shards` single-worker TLC runs in parallel.
    `slim(record)` projects a record onto what the trace spec reads. Returns (list of TlcResult,
    dict tag -> list of printed field lists)."""
    if not records:
        return [], {t: [] for t in tags}
    shards = max(1, min(shards, len(records)))
    per = (len(records) + shards - 1) // shards
    jobs = []
    for s in range(shards):
        part = records[s * per:(s + 1) * per]
        if not part:
            continue
        path = os.path.join(work, f"{cfg.replace('.cfg', '')}_shard{s}.ndjson")
        write_ndjson(path, [slim(r) if slim else r for r in part])
        jobs.append(path)
    keep = lambda l: l.startswith("<<") or l.startswith("Error") or "rror" in l[:40]

    def run(path):
        env = {"TRACE": path}
        if extra_env:
            env.update(extra_env)
        return tlc(module, cfg, work, workers=1, env=env, timeout=timeout,
                   depth_first=depth_first, line_filter=keep, xmx="3g")
    with concurrent.futures.ThreadPoolExecutor(max_workers=len(jobs)) as ex:
        results = list(ex.map(run, jobs))
    printed = {t: [] for t in tags}
    for r in results:
        for t in tags:
            printed[t].extend(r.printed(t))
    return results, printed


# ------------------------------------------------------------------------------------------------
# known findings, verdicts, evidence

def load_known():
    path = os.path.join(VERIF, "known_findings.json")
    if not os.path.exists(path):
        return []
    with open(path) as f:
        return json.load(f).get("findings", [])


class Verdicts:
    """Collects property violations observed on implementation records. Each violation has a `key`
    (specific input class / call site / history shape). Keys listed as `known` in
    known_findings.json are printed as KNOWN-FINDING; all others are VIOLATIONs."""

    def __init__(self, prop):
        self.prop = prop
        self.items = []      # dicts: key, what, replay (json-able)
        self.drift = []
        self.notes = []

    def violation(self, key, what, replay):
        self.items.append({"key": key, "what": what, "replay": replay})

    def add_drift(self, what):
        self.drift.append(what)

    def finish(self):
        """print lines, write replay files; returns (exit_code, n_violations, known_keys_seen)"""
        known = {k["key"]: k for k in load_known() if k.get("property") == self.prop and k.get("status") == "known"}
        seen_known = {}
        new = {}
        for it in self.items:
            if it["key"] in known:
                seen_known.setdefault(it["key"], []).append(it)
            else:
                new.setdefault(it["key"], []).append(it)
        try:   # full histogram of this run's violation keys, for inspection (not evidence)
            with open(os.path.join(WORKROOT, f"keys_{self.prop}.json"), "w") as f:
                json.dump({k: {"cases": len(v), "known": k in known, "example": v[0]["replay"]} for k, v in
                           list(seen_known.items()) + list(new.items())}, f, indent=1, default=str, ensure_ascii=False)
        except OSError:
            pass
        for d in self.drift[:5]:
            log(f"DRIFT property={self.prop} {d}")
        for key, its in sorted(seen_known.items()):
            log(f"KNOWN-FINDING: property={self.prop} {known[key].get('what', key)} [key={key}; {len(its)} case(s) this run]")
        code = 0
        ordered = sorted(new.items(), key=lambda kv: (len(kv[0]), kv[0]))
        for key, its in ordered[:8]:
            path = write_replay(self.prop, key, its[0], len(its))
            log(f"VIOLATION property={self.prop} replay={path}")
            log(f"  key={key} cases={len(its)} what={its[0]['what']}")
            code = 1
        if len(ordered) > 8:
            log(f"  ... and {len(ordered) - 8} further distinct violation keys (not listed)")
        return code, sum(len(v) for v in new.values()), sorted(seen_known)


def write_replay(prop, key, item, count):
    d = os.path.join(REPLAYS, prop)
    os.makedirs(d, exist_ok=True)
    body = {"property": prop, "key": key, "what": item["what"], "cases_with_this_key": count,
            "replay": item["replay"]}
    h = hashlib.sha1(json.dumps(body, sort_keys=True, default=str).encode()).hexdigest()[:12]
    path = os.path.join(d, f"{h}.json")
    with open(path, "w") as f:
        json.dump(body, f, indent=1, ensure_ascii=False, default=str)
    return path


def write_evidence(prop, tier, level, coverage, assumptions, wall, violations):
    if os.environ.get("VERIF_NO_EVIDENCE"):
        return      # runs against a deliberately changed tree (run/seed_ingest.py) must not overwrite the evidence
    os.makedirs(EVIDENCE, exist_ok=True)
    ev = {
        "property_id": prop,
        "tier": tier,
        "seed": seed(),
        "level": level,
        "coverage": coverage,
        "assumptions": assumptions,
        "wall_s": round(wall, 2),
        "violations": violations,
    }
    with open(os.path.join(EVIDENCE, f"{prop}.json"), "w") as f:
        json.dump(ev, f, indent=1, ensure_ascii=False, default=str)
        f.write("\n")


def require_actions(res, names, what):
    """vacuity control: every named action of the (A) machine must have been taken"""
    missing = [n for n in names if res.actions.get(n, (0, 0))[1] == 0]
    if missing:
        raise ToolError(f"{what}: actions never taken in the model-checking run: {missing}")

"""C11 — Escape: TLC checks that the intended escaper is lossless and printable for every class sequence in the
bound; every class sequence (several concrete representatives) and a sweep over all bytes / Unicode scalars is
pushed through the real Escaper and read back through the real parser; TLC judges every record."""
import concurrent.futures
import json
import os
import shutil
import subprocess
import tempfile
import time
import unicodedata

import lib
from lib import *

WHAT = "the text written for a line is not printable, does not read back as announced, does not match the original line, or matches a line with different content"


def classify(r):
    o = r["obs"]
    line = bytes(r["line"])
    feats = []
    try:
        txt = line.decode("utf-8")
        valid = True
    except UnicodeDecodeError:
        txt, valid = "", False
    if b"\\" in line:
        feats.append("backslash")
    if not valid:
        feats.append("invalid-utf8")
    if any(b < 0x20 or b == 0x7f for b in line):
        feats.append("control")
    if valid and any(ord(c) > 127 for c in txt):
        feats.append("non-ascii")
    path = "written"
    if o["result"] == "ok" and o["printable_ok"] and o["parse_ok"] and o["matches_orig"] and o["neighbour_matches"] == 0:
        o, path = o["render"], "canonical-rendering"
    fail = "panic" if o["result"] != "ok" else "not-printable" if not o["printable_ok"] else "not-readable" if not o["parse_ok"] \
        else "does-not-match-original" if not o["matches_orig"] else "matches-other-line"
    if r.get("leg") == "create":
        path = "scrut-create"
    return f"{r['mode']}:{path}:{fail}:{'+'.join(feats or ['plain'])}"


REP0 = {"P": b"z", "Px": b"x", "Ph": b"1", "P0": b"0", "Pe": b"t", "Pn": b"n", "B": b"\\", "T": b"\t", "Cn": b"\x07", "Cx": b"\x01",
        "U": "\u00e9".encode(), "O": "\u0085".encode(), "I": b"\xff", "S": b" (esc)"}


def create_leg_one(item):
    """`scrut create --escaping <mode>` for the command that prints exactly this line, then `scrut test` on the created
    document: the expectation line scrut wrote, whether it is printable for the mode, whether the test passes."""
    rid, v = item
    line = b"".join(REP0[c] for c in v["s"])
    root = tempfile.mkdtemp(prefix="scrut-verif-esc-", dir=os.environ.get("VERIF_SCRATCH", "/tmp"))
    rec = {"ev": "Load", "id": rid, "mode": v["mode"], "s": v["s"], "variant": 0, "line": list(line), "leg": "create"}
    bad = lambda why: dict(rec, obs={"result": "panic", "msg": why, "text": [], "text_s": "", "marked": False, "printable_ok": False, "parse_ok": False,
                                     "matches_orig": False, "neighbour_matches": 0, "render": {"result": "skip"}})
    try:
        cmd = "printf '" + "".join("\\%03o" % b for b in line) + "\\n'"
        doc = os.path.join(root, "created.md")
        env = dict(os.environ, TMPDIR=os.path.join(root, "tmp"), NO_COLOR="1")
        env.pop("SCRUT_VERIF_TRACE", None)
        os.makedirs(env["TMPDIR"])
        c = subprocess.run([SCRUT_BIN, "create", "--no-color", "--escaping", v["mode"], "-o", doc, "--", cmd], cwd=root, env=env,
                           stdout=subprocess.PIPE, stderr=subprocess.PIPE, timeout=60)
        if c.returncode != 0 or not os.path.exists(doc):
            return bad("create failed: " + c.stderr.decode("utf-8", "replace")[-200:])
        body = open(doc, "rb").read().split(b"\n")
        at = [i for i, l in enumerate(body) if l.startswith(b"$ ")]
        end = [i for i, l in enumerate(body) if l.startswith(b"```") and at and i > at[0]]
        if len(at) != 1 or not end or end[0] != at[0] + 2:
            return bad("created document has not exactly one expectation line: " + repr(body[-6:]))
        text = body[at[0] + 1]
        try:
            ts = text.decode("utf-8")
            printable = all(32 <= ord(ch) <= 126 for ch in ts) if v["mode"] == "ascii" else all(not unicodedata.category(ch).startswith("C") for ch in ts)
        except UnicodeDecodeError:
            ts, printable = text.decode("utf-8", "replace"), False
        if text == line and (line.endswith(b" (esc)") or line.endswith(b" (escaped)")):
            return dict(rec, obs={"result": "collision", "msg": "", "text": list(text), "text_s": ts, "marked": False, "printable_ok": printable,
                                  "parse_ok": False, "matches_orig": False, "neighbour_matches": 0, "render": {"result": "skip"}})
        t = subprocess.run([SCRUT_BIN, "test", "--no-color", "-r", "json", doc], cwd=root, env=env, stdout=subprocess.PIPE, stderr=subprocess.PIPE, timeout=60)
        passes = t.returncode == 0
        return dict(rec, obs={"result": "ok", "msg": "" if passes else f"scrut test exit {t.returncode}", "text": list(text), "text_s": ts, "marked": text.endswith(b" (escaped)"),
                              "printable_ok": printable, "parse_ok": passes, "matches_orig": passes, "neighbour_matches": 0, "render": {"result": "skip"}})
    except subprocess.TimeoutExpired:
        return bad("timeout")
    finally:
        shutil.rmtree(root, ignore_errors=True)


def create_leg(vectors, tier, s):
    """the binary-only leg: every class sequence up to length 2 (thorough: and a sample of longer ones), model representatives"""
    import random
    short = [v for v in vectors if 1 <= len(v["s"]) <= 2]
    longer = [v for v in vectors if len(v["s"]) > 2]
    rnd = random.Random(s * 31 + 5)
    chosen = short + rnd.sample(longer, min(len(longer), 60 if tier == "quick" else 1500))
    with concurrent.futures.ThreadPoolExecutor(max_workers=min(NCPU, 12)) as ex:
        return list(ex.map(create_leg_one, [(20_000_000 + i, v) for i, v in enumerate(chosen)]))


def run(prop, tier, replay=None):
    t0 = time.time()
    work = workdir(f"{prop}-{tier}")
    build_s = build(need_scrut_bin=True, allow_broken_harness=True)
    V = Verdicts(prop)
    s = seed()
    cov = {}
    n = 3 if tier == "quick" else 4
    cfg = os.path.join(work, "MC.cfg")
    with open(cfg, "w") as f:
        f.write(f"SPECIFICATION Spec\nCONSTANTS\n  N = {n}\nINVARIANTS Lossless CollisionIsReal PrintOK Unmarked Emit\nCHECK_DEADLOCK FALSE\n")
    res = tlc("MC_Escape", cfg, work, workers=min(NCPU, 12), timeout=3000,
              line_filter=lambda l: l.startswith('<<"REPLAY"') or l.startswith("Error") or "violated" in l)
    tlc_must_pass(res, "Escape MC/GEN")
    vectors = [json.loads(t) for t in sorted({f[0] for f in res.printed("REPLAY")})]
    log(f"MC Escape: {res.distinct} (mode, class sequence) states up to length {n}: intended escaper is lossless and printable on all, {res.wall:.0f}s")
    vpath, rpath, spath = [os.path.join(work, x) for x in ("vectors.ndjson", "records.ndjson", "sweep.ndjson")]
    write_ndjson(vpath, vectors)
    created = create_leg(vectors, tier, s)
    log(f"create leg: {len(created)} lines through `scrut create --escaping <mode>` and `scrut test` of the created document")
    if lib.HARNESS_BROKEN[0]:
        records, sweep = [], []
    else:
        harness(["escape-replay", "--vectors", vpath, "--records", rpath, "--seed", s, "--variants", 3 if tier == "quick" else 6])
        records = read_ndjson(rpath)
        harness(["escape-sweep", "--records", spath, "--step", 97 if tier == "quick" else 1])
        sweep = read_ndjson(spath)
    for r in sweep:
        r["id"] = 10_000_000 + r["id"]
    allrec = records + sweep + created
    tcfg = os.path.join(work, "Trace.cfg")
    with open(tcfg, "w") as f:
        f.write(f"SPECIFICATION TraceSpec\nCONSTANTS\n  N = {n}\nINVARIANTS Verdicts\nPOSTCONDITION Accepted\nCHECK_DEADLOCK FALSE\n")

    def slim(r):
        o = r["obs"]
        return {"ev": r["ev"], "id": r["id"], "mode": r["mode"], "s": r.get("s", []), "variant": r.get("variant", 1),
                "obs": dict({k: o.get(k, False) for k in ("result", "printable_ok", "parse_ok", "matches_orig", "neighbour_matches", "text")},
                            render={k: o["render"].get(k, False) for k in ("result", "printable_ok", "parse_ok", "matches_orig", "neighbour_matches")})}
    results, printed = tlc_validate_sharded("EscapeTrace", tcfg, allrec, work, shards=min(NCPU, 12), slim=slim,
                                            tags=("VERDICT", "DRIFT"))
    for r in results:
        tlc_must_pass(r, "EscapeTrace VAL")
    validated = sum(r.distinct - 1 for r in results)
    if validated != len(allrec):
        raise ToolError(f"trace validation consumed {validated} of {len(allrec)} records")
    byid = {r["id"]: r for r in allrec}
    for _p, rid in printed["VERDICT"]:
        r = byid[rid]
        V.violation(classify(r), WHAT, {"mode": r["mode"], "line_bytes": r["line"], "classes": r.get("s"), "what": r.get("what"),
                                        "written_text": r["obs"].get("text_s"), "observed": {k: v for k, v in r["obs"].items() if k != "text"}})
    if printed["DRIFT"]:
        r = byid[printed["DRIFT"][0][0]]
        V.add_drift(f"{len(printed['DRIFT'])} texts differ from the intended encoding, e.g. classes {r['s']} mode {r['mode']}: {r['obs'].get('text_s')!r}")
    code, nviol, known = V.finish()
    if lib.HARNESS_BROKEN[0] and nviol == 0:
        tool_error("harness build failed (does /repo still compile with --features verif?); the binary-only leg found no violation")
    cov.update({
        "states": res.distinct, "transitions": max(res.generated, 1), "traces_validated_against_impl": validated,
        "samples": [{"mode": r["mode"], "line_bytes": r["line"], "written": r["obs"].get("text_s")} for r in records[3000:3003]],
        "evaluations": len(allrec),
        "distinct_nontrivial": len({(r["mode"], bytes(r["line"])) for r in allrec if len(r["line"]) >= 2}),
        "rule": "one evaluation = escape one line, read the text back as an expectation, test it on the original and on ~8 neighbouring lines per character; non-trivial = at least 2 bytes; distinct by (mode, bytes)",
        "sweep_records": len(sweep), "create_leg_records": len(created), "drift": len(printed["DRIFT"]),
        "known_findings_seen": known, "build_s": round(build_s, 1), "exhaustive": False,
        "bounds": f"all class sequences up to length {n} over 14 classes (13 byte classes and the marker-like word ` (esc)`) x 2 modes x {3 if tier == 'quick' else 6} concrete representatives; sweep: all 256 single bytes (alone and after a backslash), every {'97th' if tier == 'quick' else ''} Unicode scalar (all below U+3000)",
    })
    write_evidence(prop, tier, "model_checking", cov,
                   ["TLC", "the unicode_categories crate (also used by scrut) classifies characters for the 'printable' judgement in unicode mode",
                    "neighbours are a sample of lines at edit distance 1"], time.time() - t0, nviol)
    log(f"{prop}: {validated} records validated by TLC, {nviol} violation(s), drift={len(printed['DRIFT'])}, {time.time()-t0:.0f}s")
    return code

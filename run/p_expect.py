"""C08 — ExpectationGrammar: TLC enumerates token lines (prefix + well-formed and near-miss trailing groups);
the real ExpectationMaker parses each rendering, renders the canonical form under both escapers and parses
that again; TLC recomputes the documented reading and judges parse + round trip."""
import json
import os
import re
import time

from lib import *

WHAT = {"parse": "an expectation line was not read as the documented grammar says (or parsing crashed / failed where it must not)",
        "roundtrip": "the canonical rendering of a parsed expectation does not parse back to an equivalent expectation"}


def _printable(text, esc):
    """nothing in the text that this escaper would rewrite (the known finding is about exactly these expressions)"""
    import unicodedata
    if esc == "ascii":
        return all(0x20 <= ord(c) < 0x7f for c in text)
    return not any(unicodedata.category(c).startswith("C") for c in text)


def toknames(line):
    return [t[0] if t[0] not in ("K", "Q") else t[0] + ":" + t[1] for t in line]


MODRE = re.compile(r"\s\((?:(?:equal|eq|no-eol|escaped|esc|glob|gl|regex|re)[*+?]?|[*+?])\)$")
WSMOD = re.compile(r"[\t\xa0]\((?:(?:equal|eq|no-eol|escaped|esc|glob|gl|regex|re)[*+?]?|[*+?])\)$")


def classify(r, phase):
    """returns a list of keys (one per distinct cause visible in the record)"""
    o = r["obs"]
    if phase == "parse":
        if o["result"] == "panic":
            return ["parse:panic:" + o["msg"][:40]]
        if WSMOD.search(r["text"]):
            return ["parse:modifier-after-tab-or-nbsp"]
        if o["result"] == "err":
            return ["parse:error:" + o["msg"][:40] + ":" + r["text"][:30]]
        return [f"parse:read-differently:{r['text'][:40]}:as={o['kind']}{o['quant']}"]
    keys = set()
    for t in o["rt"]:
        if t["result"] == "ok" and t["same_quant"] and t["same_matches"]:
            continue
        mode = t["result"] if t["result"] != "ok" else ("quantifier-changed" if not t["same_quant"] else "matches-differ")
        rendered_expr = MODRE.sub("", t["text"]) if MODRE.search(t["text"]) else t["text"]
        if o["kind"] == "equal" and MODRE.search(o["expr"]) and not o["expr"].endswith(" (no-eol)"):
            keys.add("roundtrip:equal-expression-ends-in-modifier-like-text")
        elif o["kind"] == "equal" and o["expr"].endswith(" (no-eol)"):
            keys.add("roundtrip:equal-expression-ending-in-(no-eol)")
        elif o["kind"] == "escaped" and "\\" in o["expr"] and _printable(o["expr"], t["esc"]):
            keys.add("roundtrip:escaped-kind-with-literal-backslash")
        elif o["kind"] in ("glob", "no-eol", "regex") and rendered_expr != o["expr"]:
            keys.add(f"roundtrip:{o['kind']}-expression-rewritten-by-{t['esc']}-escaper")
        else:
            keys.add(f"roundtrip:other:{o['kind']}:{mode}:{t['esc']}:{r['text'][:30]}")
    return sorted(keys)


def run(prop, tier, replay=None):
    t0 = time.time()
    work = workdir(f"{prop}-{tier}")
    build_s = build()
    V = Verdicts(prop)
    s = seed()
    cov = {}
    if replay:
        with open(replay) as f:
            body = json.load(f)
        vectors = [{"line": body["replay"]["line"], "id": 1}]
        states = trans = 0
        tier_c = body["replay"].get("tier", "quick")
        s = body["replay"].get("seed", s)
    else:
        tier_c = tier
        cfg = os.path.join(work, "MC.cfg")
        with open(cfg, "w") as f:
            f.write(f'SPECIFICATION Spec\nCONSTANTS\n  Tier = "{tier}"\nINVARIANTS RefSanity Emit\nCHECK_DEADLOCK FALSE\n')
        res = tlc("MC_ExpectationGrammar", cfg, work, workers=min(NCPU, 12), timeout=3000,
                  line_filter=lambda l: l.startswith('<<"REPLAY"') or l.startswith("Error") or "violated" in l)
        tlc_must_pass(res, "ExpectationGrammar MC/GEN")
        vectors = [json.loads(t) for t in sorted({f[0] for f in res.printed("REPLAY")})]
        for i, v in enumerate(vectors):
            v["id"] = i + 1
        states, trans = res.distinct, res.generated
        nmod = sum(1 for v in vectors if v["ref"]["cls"] == "mod")
        if nmod == 0 or nmod == len(vectors):
            raise ToolError("vacuity: the enumeration must contain both modifier lines and plain lines")
        cov["lines_with_modifier"] = nmod
        log(f"MC/GEN ExpectationGrammar[{tier}]: {len(vectors)} token lines ({nmod} with a documented modifier), reference sanity holds, {res.wall:.0f}s")
    vpath, rpath = os.path.join(work, "vectors.ndjson"), os.path.join(work, "records.ndjson")
    write_ndjson(vpath, vectors)
    records = []
    for sd in ([s] if tier == "quick" or replay else [s, s + 1, s + 2]):
        harness(["expect-replay", "--vectors", vpath, "--records", rpath, "--seed", sd])
        for r in read_ndjson(rpath):
            r["seed"] = sd
            r["id"] = len(records) + 1
            records.append(r)
    tcfg = os.path.join(work, "Trace.cfg")
    with open(tcfg, "w") as f:
        f.write(f'SPECIFICATION TraceSpec\nCONSTANTS\n  Tier = "{tier_c}"\nINVARIANTS Verdicts\nPOSTCONDITION Accepted\nCHECK_DEADLOCK FALSE\n')
    results, printed = tlc_validate_sharded("ExpectationTrace", tcfg, records, work, shards=min(NCPU, 10),
                                            slim=lambda r: {k: r[k] for k in ("ev", "id", "line", "pre", "obs")})
    for r in results:
        tlc_must_pass(r, "ExpectationTrace VAL")
    validated = sum(r.distinct - 1 for r in results)
    if validated != len(records):
        raise ToolError(f"trace validation consumed {validated} of {len(records)} records")
    byid = {r["id"]: r for r in records}
    for _p, rid, phase in printed["VERDICT"]:
        r = byid[rid]
        for key in classify(r, phase):
            V.violation(key, WHAT[phase], {"line": r["line"], "text": r["text"], "observed": r["obs"],
                                           "seed": r["seed"], "tier": tier_c})
    code, nviol, known = V.finish()
    if not replay:
        cov.update({
            "states": states, "transitions": max(trans, 1), "traces_validated_against_impl": validated,
            "samples": [{"text": r["text"], "parsed": {k: r["obs"][k] for k in ("result", "kind", "expr", "quant")},
                         "canonical": [t["text"] for t in r["obs"]["rt"]]} for r in records[5000:5003]],
            "evaluations": len(records),
            "distinct_nontrivial": len({r["text"] for r in records if len(r["line"]) >= 3}),
            "rule": "one evaluation = parse + canonical rendering under both escapers + re-parse + matching comparison for one rendered token line; non-trivial = at least 3 tokens; distinct by text",
            "known_findings_seen": known, "build_s": round(build_s, 1), "exhaustive": True,
        })
        write_evidence(prop, tier, "model_checking", cov,
                       ["TLC", "token spellings are a sample (4 words incl. non-ASCII, 4 punctuation marks)",
                        "equivalence of original and re-parsed expectation is observed on 12 candidate lines per expectation; the line terminator is not 'content' except for no-eol"],
                       time.time() - t0, nviol)
    log(f"{prop}: {validated} lines validated by TLC, {nviol} violation(s), {time.time()-t0:.0f}s")
    return code

#!/usr/bin/env python3
"""Regression of the checks against the kept seeded changes: for every seeded/<id>/ the patch is applied to a scratch
worktree of /repo (never to /repo itself), the check(s) that detected it when it was ingested are run in an isolated copy
of /verif against that worktree, and the result must again be exit 1 (VIOLATION).
usage: seed_regress.py [--only C01a,C05c] [--out work/seed_regress.json] [--shard i/n] [--sv /tmp/sv] [--mv /tmp/mut/verif]
Scratch: /tmp/sv (worktree), /tmp/mut/verif (copy of /verif); both are removed by the caller when done. Several shards
(each with its own --sv / --mv / --out) may run side by side."""
import json, os, subprocess, sys, time

VERIF = os.path.dirname(os.path.dirname(os.path.abspath(__file__)))
SV, MV = "/tmp/sv", "/tmp/mut/verif"


def sh(cmd, cwd=None, timeout=3600):
    p = subprocess.run(cmd, shell=True, cwd=cwd, stdout=subprocess.PIPE, stderr=subprocess.STDOUT, text=True, timeout=timeout)
    return p.returncode, p.stdout


def main():
    args = sys.argv[1:]
    only = set(args[args.index("--only") + 1].split(",")) if "--only" in args else None
    out = args[args.index("--out") + 1] if "--out" in args else os.path.join(VERIF, "work", "seed_regress.json")
    global SV, MV
    SV = args[args.index("--sv") + 1] if "--sv" in args else SV
    MV = args[args.index("--mv") + 1] if "--mv" in args else MV
    shard_i, shard_n = (int(x) for x in args[args.index("--shard") + 1].split("/")) if "--shard" in args else (0, 1)
    if not os.path.isdir(SV):
        code, o = sh(f"git -C /repo worktree add --detach {SV} HEAD")
        if code != 0:
            print(o); sys.exit(2)
    sh("git checkout -q --detach $(git -C /repo rev-parse HEAD) && git checkout -q -- . && git clean -fdq -e target", cwd=SV)
    os.makedirs(os.path.dirname(MV), exist_ok=True)
    sh(f"rsync -a --delete --exclude work --exclude harness/target --exclude replays --exclude .git {VERIF}/ {MV}/")
    sh(f"sed -i 's#path = \"/repo\"#path = \"{SV}\"#' {MV}/harness/Cargo.toml")
    results = {}
    names = sorted(d for d in os.listdir(os.path.join(VERIF, "seeded")) if os.path.isdir(os.path.join(VERIF, "seeded", d)))
    for pos, name in enumerate(names):
        if (only and name not in only) or pos % shard_n != shard_i:
            continue
        d = os.path.join(VERIF, "seeded", name)
        meta = json.load(open(os.path.join(d, "meta.json")))
        checks = meta.get("detected_by") or []
        if not checks:
            results[name] = {"status": "not-detected-when-ingested", "history": meta.get("history", "")[:80]}
            print(f"{name}: (was not detected when ingested)", flush=True)
            continue
        code, o = sh(f"git apply {d}/patch.diff", cwd=SV)
        if code != 0:
            results[name] = {"status": "patch-does-not-apply", "detail": o[-200:]}
            print(f"{name}: patch does not apply to the current HEAD", flush=True)
            continue
        try:
            c = checks[0]
            t0 = time.time()
            code, o = sh(f"VERIF_NO_EVIDENCE=1 VERIF_REPO={SV} python3 run/check.py {c} --tier quick", cwd=MV, timeout=3000)
            results[name] = {"status": "detected" if code == 1 else f"NOT-DETECTED(exit {code})", "check": c, "wall_s": round(time.time() - t0)}
            print(f"{name}: {c} exit={code} {'ok' if code == 1 else 'NOT DETECTED'} {round(time.time() - t0)}s", flush=True)
        finally:
            sh("git checkout -q -- . && git clean -fdq -e target", cwd=SV)
        with open(out, "w") as f:
            json.dump(results, f, indent=1)
    bad = {k: v for k, v in results.items() if v["status"].startswith("NOT-DETECTED")}
    print(f"{len(results)} seeds: {sum(1 for v in results.values() if v['status'] == 'detected')} detected again, {len(bad)} not detected: {sorted(bad)}")
    sys.exit(0 if not bad else 1)


if __name__ == "__main__":
    main()

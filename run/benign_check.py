#!/usr/bin/env python3
"""False-alarm control: a change to /repo that keeps all properties true (written by a sub-agent that saw only the property
texts) is applied to a scratch worktree of /repo (never to /repo itself) and ALL quick checks are run against it in an
isolated copy of /verif. Every check must end with exit 0 (exit 2 = the harness no longer fits the changed code: noted,
not an alarm). The change and the result are kept under benign/<name>/.
usage: benign_check.py <name> <patch-file> [--notes file] [--sv /tmp/sv4] [--mv /tmp/mut4/verif] [--checks C01,C02]"""
import json, os, shutil, subprocess, sys, time

VERIF = os.path.dirname(os.path.dirname(os.path.abspath(__file__)))


def sh(cmd, cwd=None, timeout=3600):
    p = subprocess.run(cmd, shell=True, cwd=cwd, stdout=subprocess.PIPE, stderr=subprocess.STDOUT, text=True, timeout=timeout)
    return p.returncode, p.stdout


def main():
    args = sys.argv[1:]
    name, patch = args[0], os.path.abspath(args[1])
    opt = lambda k, d: args[args.index(k) + 1] if k in args else d
    SV, MV = opt("--sv", "/tmp/sv4"), opt("--mv", "/tmp/mut4/verif")
    checks = opt("--checks", ",".join(f"C{i:02d}" for i in range(1, 21))).split(",")
    head = subprocess.check_output(["git", "-C", "/repo", "rev-parse", "HEAD"], text=True).strip()
    if not os.path.isdir(SV):
        code, o = sh(f"git -C /repo worktree add --detach {SV} {head}")
        if code != 0:
            print(o); sys.exit(2)
    sh(f"git checkout -q --detach {head} && git checkout -q -- . && git clean -fdq -e target", cwd=SV)
    os.makedirs(os.path.dirname(MV), exist_ok=True)
    sh(f"rsync -a --delete --exclude work --exclude harness/target --exclude replays --exclude .git {VERIF}/ {MV}/")
    sh(f"sed -i 's#path = \"/repo\"#path = \"{SV}\"#' {MV}/harness/Cargo.toml")
    code, o = sh(f"git apply {patch}", cwd=SV)
    if code != 0:
        print(f"{name}: patch does not apply: {o[-300:]}"); sys.exit(2)
    d = os.path.join(VERIF, "benign", name)
    os.makedirs(d, exist_ok=True)
    shutil.copy(patch, os.path.join(d, "patch.diff"))
    if "--notes" in args and os.path.exists(opt("--notes", "")):
        shutil.copy(opt("--notes", ""), os.path.join(d, "notes.md"))
    meta = {"name": name, "repo_head": head, "checks_quick": {}}
    try:
        code, o = sh("cargo nextest run --workspace --no-fail-fast --offline 2>&1 | tail -4", cwd=SV)
        meta["pinned_suite_passes"] = "passed" in o and "failed" not in o.lower().replace("no-fail-fast", "")
        for c in checks:
            t0 = time.time()
            code, o = sh(f"VERIF_NO_EVIDENCE=1 VERIF_REPO={SV} python3 run/check.py {c} --tier quick", cwd=MV, timeout=3000)
            lines = [l for l in o.splitlines() if l.startswith(("VIOLATION", "TOOL-ERROR", "DRIFT")) or l.startswith("  key=")]
            meta["checks_quick"][c] = {"exit": code, "wall_s": round(time.time() - t0), "lines": [l[:300] for l in lines[:6]]}
            print(f"{name}: {c} exit={code} {round(time.time() - t0)}s " + (" | ".join(lines[:2])[:260] if code != 0 or lines else ""), flush=True)
            with open(os.path.join(d, "meta.json"), "w") as f:
                json.dump(meta, f, indent=1)
    finally:
        sh("git checkout -q -- . && git clean -fdq -e target", cwd=SV)
    alarms = [c for c, r in meta["checks_quick"].items() if r["exit"] == 1]
    meta["false_alarms"] = alarms
    meta["tool_errors"] = [c for c, r in meta["checks_quick"].items() if r["exit"] == 2]
    meta["drift_reported_by"] = [c for c, r in meta["checks_quick"].items() if any(l.startswith("DRIFT") for l in r["lines"])]
    with open(os.path.join(d, "meta.json"), "w") as f:
        json.dump(meta, f, indent=1)
    print(f"{name}: suite={meta['pinned_suite_passes']} alarms={alarms} tool_errors={meta['tool_errors']} drift={meta['drift_reported_by']}")
    sys.exit(1 if alarms else 0)


if __name__ == "__main__":
    main()

"""C07 — CramDoc: TLC checks the line machine against the positional reference on every line sequence in the
bound; the real CramParser parses each document; TLC compares every result with the reference."""
import json
import os
import time

from lib import *

ACTIONS = ["SkipComment", "BlankLine", "CmdLine", "ContLine", "CodeLine", "ExpLine", "UnindentedLine", "Eof"]
WHAT = "Cram parsing crashed, or returned tests that are not exactly the indented `$` commands written in the document"


def classify(r):
    o, ref = r["obs"], r["ref"]
    if o["result"] == "panic":
        return "panic:" + o["msg"][:40]
    if o["result"] == "err":
        return "well-formed-document-rejected:" + o["msg"][:50]
    if ref["must_err"]:
        return "ok-although-only-error-acceptable"
    if len(o["tests"]) != len(ref["tests"]):
        return "test-count:" + "|".join(l.strip()[:6] or "_" for l in r["lines"])
    d = sorted({f for a, b in zip(o["tests"], ref["tests"]) for f in ("cmd", "exps", "code", "line") if a[f] != b["t"][f]}
               | {"cfg" for a in o["tests"] if not a["cfg_ok"]}
               | {"title" for a, b in zip(o["tests"], ref["tests"]) if b["hasTitle"] and a["title"] != b["t"]["title"]})
    return "field:" + ",".join(d) + ":" + "|".join(l.strip()[:6] or "_" for l in r["lines"]) + f":crlf={int(r['crlf'])}"


def run(prop, tier, replay=None):
    t0 = time.time()
    work = workdir(f"{prop}-{tier}")
    build_s = build()
    V = Verdicts(prop)
    cov = {}
    maxlen = 4 if tier == "quick" else 5
    if replay:
        with open(replay) as f:
            body = json.load(f)
        vectors = [body["replay"]["vector"]]
        states = trans = 0
    else:
        cfg = os.path.join(work, "MC.cfg")
        with open(cfg, "w") as f:
            f.write(f"SPECIFICATION Spec\nCONSTANTS\n  MaxLen = {maxlen}\nINVARIANTS Agrees Emit\nCHECK_DEADLOCK FALSE\n")
        res = tlc("MC_CramDoc", cfg, work, workers=min(NCPU, 12), coverage=True, timeout=3000,
                  line_filter=lambda l: l.startswith('<<"REPLAY"') or l.startswith("Error") or "violated" in l)
        tlc_must_pass(res, "CramDoc MC")
        require_actions(res, ACTIONS, "CramDoc MC")
        states, trans = res.distinct, res.generated
        cov["mc_action_counts"] = {a: res.actions[a][1] for a in ACTIONS}
        vectors = [json.loads(t) for t in sorted({f[0] for f in res.printed("REPLAY")})]
        log(f"MC CramDoc[{tier}]: {res.distinct} states, {len(vectors)} documents (all sequences of <= {maxlen} lines over 15 line kinds), machine = reference on all judged ones, {res.wall:.0f}s")
    vpath, rpath = os.path.join(work, "vectors.ndjson"), os.path.join(work, "records.ndjson")
    write_ndjson(vpath, vectors)
    harness(["cram-replay", "--vectors", vpath, "--records", rpath])
    records = read_ndjson(rpath)
    results, printed = tlc_validate_sharded("CramTrace", "CramTrace.cfg", records, work, shards=min(NCPU, 10),
                                            slim=lambda r: {k: r[k] for k in ("ev", "id", "ref", "obs")})
    for r in results:
        tlc_must_pass(r, "CramTrace VAL")
    validated = sum(r.distinct - 1 for r in results)
    if validated != len(records):
        raise ToolError(f"trace validation consumed {validated} of {len(records)} records")
    byid = {r["id"]: r for r in records}
    for _p, rid in printed["VERDICT"]:
        r = byid[rid]
        V.violation(classify(r), WHAT, {"vector": {"lines": r["lines"], "ref": r["ref"]}, "crlf": r["crlf"],
                                        "final_newline": r["final_newline"], "observed": r["obs"]})
    code, nviol, known = V.finish()
    if not replay:
        cov.update({
            "states": states, "transitions": trans, "traces_validated_against_impl": validated,
            "samples": [{"lines": r["lines"], "parsed": r["obs"]} for r in records if len(r["ref"]["tests"]) >= 2][:2],
            "evaluations": len(records),
            "distinct_nontrivial": len({json.dumps(r["lines"]) for r in records if len(r["ref"]["tests"]) >= 1 and not r["ref"]["unjudged"]}),
            "rule": "one evaluation = CramParser::parse on one rendering (LF / CRLF / no final newline) of one enumerated line sequence; non-trivial = judged document with at least one command; distinct by line sequence",
            "unjudged_documents": sum(1 for r in records if r["ref"]["unjudged"]),
            "known_findings_seen": known, "build_s": round(build_s, 1), "exhaustive": True,
        })
        write_evidence(prop, tier, "model_checking", cov,
                       ["TLC", "documents with indented lines that belong to no command are only judged for 'never crashes' (statement is silent)",
                        "titles compared only for the first command after an unindented line"], time.time() - t0, nviol)
    log(f"{prop}: {validated} parses validated by TLC, {nviol} violation(s), {time.time()-t0:.0f}s")
    return code

"""C04 — Rules: TLC enumerates (kind, expression) x candidate lines with the documented verdict;
the harness asks the real rule engines; TLC re-evaluates the documented meaning on every record."""
import json
import os
import time

from lib import *

WHAT = "a rule kind matches a line that the documented meaning of the expression excludes, or rejects one it includes"


def _cfg(work, name, tier, body):
    path = os.path.join(work, name)
    with open(path, "w") as f:
        f.write(f'SPECIFICATION {"TraceSpec" if "Trace" in name else "Spec"}\nCONSTANTS\n  Tier = "{tier}"\n{body}\nCHECK_DEADLOCK FALSE\n')
    return path


def key_of(rec, variant, j):
    kind = rec["kind"]
    expr = rec["expr"]
    if kind == "crash":
        return "crash"
    if j == 0:
        return f"{kind}:parse-{variant['parse']}:{variant['text']}"
    o = variant["obs"][j - 1]["o"]
    direction = {"T": "false-accept", "F": "false-reject", "P": "panic"}[o]
    if kind == "regex":
        shape = "top-level-alternation" if rec["ast"] and rec["ast"][0] == "alt" else "shape-" + (rec["ast"][0] if rec["ast"] else "?")
        return f"regex:{shape}:{direction}" + ("" if shape == "top-level-alternation" else ":" + variant["text"])
    if kind == "escaped" and any(expr[x] == "B" and expr[x + 1] == "E" and (x == 0 or expr[x - 1] != "B" or _escaped_backslash_run(expr, x))
                                 for x in range(len(expr) - 1)):
        return f"escaped:backslash-before-non-ascii:{direction}"
    return f"{kind}:{variant['reg']}:{direction}:{variant['text']}"


def _escaped_backslash_run(expr, x):
    # number of consecutive backslashes ending at x is odd -> x starts an escape pair
    n = 0
    while x - n >= 0 and expr[x - n] == "B":
        n += 1
    return n % 2 == 1


def run(prop, tier, replay=None):
    t0 = time.time()
    work = workdir(f"{prop}-{tier}")
    build_s = build()
    V = Verdicts(prop)
    s = seed()
    cov = {}
    if replay:
        with open(replay) as f:
            body = json.load(f)
        vectors = [body["replay"]["vector"]]
        states = trans = 0
        tier_c = body["replay"].get("tier", "quick")
    else:
        tier_c = tier
        cfg = _cfg(work, "MC_Rules.cfg", tier, "INVARIANTS RefSanity Emit")
        res = tlc("MC_Rules", cfg, work, workers=min(NCPU, 12), timeout=3000,
                  line_filter=lambda l: l.startswith('<<"REPLAY"') or l.startswith("Error") or "violated" in l)
        tlc_must_pass(res, "Rules MC/GEN")
        texts = sorted({f[0] for f in res.printed("REPLAY")})
        vectors = [json.loads(t) for t in texts]
        for i, v in enumerate(vectors):
            v["id"] = i + 1
        states, trans = res.distinct, res.generated
        kinds = {}
        for v in vectors:
            kinds[v["kind"]] = kinds.get(v["kind"], 0) + 1
        cov["expressions_per_kind"] = kinds
        for k in ("regex", "glob", "cramglob", "escaped", "escglob", "equal", "no-eol"):
            if kinds.get(k, 0) == 0:
                raise ToolError(f"vacuity: no expression of kind {k} enumerated")
        log(f"MC/GEN Rules[{tier}]: {res.distinct} (kind, expression) states, reference sanity invariants hold, {res.wall:.0f}s")
    vpath = os.path.join(work, "vectors.ndjson")
    write_ndjson(vpath, vectors)
    rpath = os.path.join(work, "records.ndjson")
    seeds = [s] if tier == "quick" else [s, s + 1]
    records = []
    for sd in seeds:
        harness(["rules-replay", "--vectors", vpath, "--records", rpath, "--seed", sd])
        rs = read_ndjson(rpath)
        for r in rs:
            r["vid"] = r["id"]
            r["id"] = len(records) + 1
            r["seed"] = sd
            records.append(r)
    byid = {r["id"]: r for r in records}
    vec_by_id = {v["id"]: v for v in vectors}
    tcfg = _cfg(work, "RulesTrace.cfg", tier_c, "INVARIANTS Verdicts\nPOSTCONDITION Accepted")
    results, printed = tlc_validate_sharded("RulesTrace", tcfg, records, work, shards=min(NCPU, 12),
                                            slim=lambda r: {k: r[k] for k in ("ev", "id", "kind", "expr", "ast", "variants")})
    for r in results:
        tlc_must_pass(r, "RulesTrace VAL")
    validated = sum(r.distinct - 1 for r in results)
    if validated != len(records):
        raise ToolError(f"trace validation consumed {validated} of {len(records)} records")
    pairs = sum(len(v["obs"]) for r in records for v in r["variants"])
    for _p, rid, vi, j in printed["VERDICT"]:
        r = byid[rid]
        if r["kind"] == "crash":
            V.violation("crash", "rule engine harness crashed: " + r.get("crash", ""), {"vector": vec_by_id.get(r["vid"])})
            continue
        variant = r["variants"][vi - 1]
        line = variant["obs"][j - 1] if j else None
        V.violation(key_of(r, variant, j), WHAT, {
            "vector": vec_by_id.get(r["vid"]), "tier": tier_c, "registry": variant["reg"], "expectation_text": variant["text"],
            "line_tokens": line["l"] if line else None, "observed": line["o"] if line else variant["parse"],
            "non_ascii_char_used": r.get("e_choice"), "seed": r.get("seed")})
    code, nviol, known = V.finish()
    if not replay:
        sample = []
        for k in ("regex", "glob", "escaped"):
            for r in records:
                if r["kind"] == k and len(r["expr"]) >= 3:
                    v = r["variants"][0]
                    sample.append({"expectation": v["text"], "lines_asked": len(v["obs"]),
                                   "first": [["".join(o["l"]), o["o"]] for o in v["obs"][:6]]})
                    break
        cov.update({
            "states": states, "transitions": max(trans, 1),
            "traces_validated_against_impl": validated,
            "samples": sample,
            "evaluations": pairs,
            "distinct_nontrivial": len({(r["kind"], json.dumps(r["expr"])) for r in records if len(r["expr"]) >= 1}),
            "rule": "evaluations = (expectation text, registry, candidate line) triples answered by the real rule engine; distinct_nontrivial = distinct non-empty (kind, expression) pairs",
            "known_findings_seen": known,
            "build_s": round(build_s, 1),
            "exhaustive": True,
            "bounds": f"tier {tier}: regex ASTs of depth <= 2 (quick: level 1 + a 8-element seed set combined), glob/cram-glob patterns <= {3 if tier == 'quick' else 4} tokens over {{a,b,E,?,*}}, escaped expressions <= {4 if tier == 'quick' else 5} tokens over 9 symbols, all lines <= 3 characters with/without newline; {len(seeds)} choice(s) of the non-ASCII character",
        })
        write_evidence(prop, tier, "model_checking", cov,
                       ["TLC evaluates the reference operators (RMatch, GlobMatch, Decode) correctly; reference sanity invariants are checked in the same run",
                        "regex / wildmatch engines are only observed on the enumerated fragment",
                        "expressions that are malformed under the documented escape syntax are not judged (C08 covers parse failures)"],
                       time.time() - t0, nviol)
    log(f"{prop}: {validated} records ({pairs} expression x line answers) validated by TLC, {nviol} violation(s), {time.time()-t0:.0f}s")
    return code

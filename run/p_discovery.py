"""C20, second leg — file discovery: TLC model-checks the depth-first walk of specs/Discovery.tla against the
path-counting reference on every scenario of the bound (file tree x patterns x command-line paths) and emits the
scenarios; a sample (thorough: many more) is materialised as a real file tree and run with the real binary; TLC
evaluates DiscOk (VERDICT) and DiscExact (DRIFT) on every observed run."""
import concurrent.futures
import json
import os
import random
import shutil
import tempfile
import time

import scenario
from lib import *

ACTIONS = ["ArgMissing", "ArgFile", "ArgDir", "DirFile", "DirDir", "LeaveDir", "Finish"]
WHAT = "a given document was not run exactly as often as it was given (or with the wrong parser, or out of order), results do not add up, or the exit status does not report the run"
EXT = {"md": ".md", "markdown": ".markdown", "t": ".t", "cram": ".cram", "txt": ".txt"}
DIRS = {"root": "root", "d1": "root/d1", "d2": "root/d1/d2"}
PARENT = {"a": "root", "e": "root", "b": "d1", "c": "d2", "h": "d2"}


def file_name(node, cls, prefix=""):
    if cls == "hidden_md":
        return f".{prefix}{node}.md"
    if cls == "upper_md":
        return f"{prefix}{node}".upper() + ".MD"
    return f"{prefix}{node}{EXT[cls]}"


def node_path(sc, node):
    if node == "missing":
        return "root/nope.md"
    if node in DIRS:
        return DIRS[node]
    if node == "ld":
        return "root/ld"
    if node == "la":
        if sc["cls"]["a"] == "absent":      # (no link without its target: a path that does not exist)
            return "root/la.md"
        return "root/" + file_name("a", sc["cls"]["a"], prefix="l")
    cls = sc["cls"][node]
    if cls == "absent":      # a path to a file that is not there
        return f"{DIRS[PARENT[node]]}/{node}.md"
    return f"{DIRS[PARENT[node]]}/{file_name(node, cls)}"


def content(kind, ident):
    # every document also has an expectation that only passes under the glob dialect of ITS format (Cram: `\\*` is a literal
    # star; Markdown: the backslash is an ordinary character and `*` a wildcard): the rule registry is chosen per document
    if kind == "cram":
        return f"Test {ident}\n\n  $ echo {ident} >> \"$RUN_LOG\"; echo 'foo*bar'\n  foo\\*bar (glob)\n"
    return f"# Test {ident}\n\n```scrut\n$ echo {ident} >> \"$RUN_LOG\"; echo 'foo\\Xbar'\nfoo\\*bar (glob)\n```\n"


def materialise(sc, root):
    for d in DIRS.values():
        os.makedirs(os.path.join(root, d), exist_ok=True)
    for node, cls in sc["cls"].items():
        if cls == "absent":
            continue
        kind = sc["parser"][node]
        if kind == "none":      # not a document by the model: written in the format its name suggests, so that it logs if it is run after all
            kind = "cram" if cls in ("t", "cram") else "markdown"
        with open(os.path.join(root, node_path(sc, node)), "w") as f:
            f.write(content(kind, node))
    if "la" in sc["links"]:
        os.symlink(file_name("a", sc["cls"]["a"]), os.path.join(root, node_path(sc, "la")))
    if "ld" in sc["links"]:
        os.symlink("d1", os.path.join(root, "root/ld"))
    argv = []
    if sc["mdpat"] == "txt":
        argv += ["--match-markdown", "*.txt"]
    if sc["crampat"] == "txt":
        argv += ["--match-cram", "*.txt"]
    elif sc["crampat"] == "md":
        argv += ["--match-cram", "*.md"]
    return argv + [node_path(sc, a) for a in sc["args"]]


def observe(sc):
    root = tempfile.mkdtemp(prefix="scrut-verif-disc-", dir=os.environ.get("VERIF_SCRATCH", "/tmp"))
    try:
        argv = materialise(sc, root)
        code, out, err, _wall, pid = scenario.run_scrut(argv, root)
        scenario.kill_group(pid)
        ran = []
        log_path = os.path.join(root, "run.log")
        if os.path.exists(log_path):
            ran = [l.strip() if l.strip() in sc["cls"] else "?" for l in open(log_path, errors="replace") if l.strip()]
        nres = -1
        try:
            js = json.loads(out.decode("utf-8", "replace")) if out.strip() else []
            if isinstance(js, list):
                nres = len(js)
        except ValueError:
            nres = -1
        if code == 1 and nres == -1:
            nres = 0
        return {"ran": ran, "exit": code, "nres": nres, "argv": argv, "stderr_tail": err.decode("utf-8", "replace")[-300:]}
    finally:
        shutil.rmtree(root, ignore_errors=True)


QUICK_CFG = """  ClsA = {"md", "t", "txt", "hidden_md", "absent"}
  ClsB = {"t", "absent"}
  ClsC = {"markdown", "cram"}
  ClsH = {"hidden_md", "absent"}
  ClsE = {"md", "upper_md", "absent"}
  Tier = "quick"
"""
THOROUGH_CFG = """  ClsA = {"md", "markdown", "t", "cram", "txt", "hidden_md", "upper_md", "absent"}
  ClsB = {"t", "txt", "absent"}
  ClsC = {"markdown", "cram"}
  ClsH = {"hidden_md", "absent"}
  ClsE = {"md", "upper_md", "absent"}
  Tier = "thorough"
"""


def leg(prop, tier, work, V, cov, replay_sc=None):
    """returns the number of runs validated"""
    t0 = time.time()
    s = seed()
    if replay_sc is not None:
        chosen = [replay_sc]
    else:
        cfg = os.path.join(work, "MC_Discovery.cfg")
        with open(cfg, "w") as f:
            f.write("SPECIFICATION DSpec\nCONSTANTS\n  Scenarios <- MCScen\n" + (QUICK_CFG if tier == "quick" else THOROUGH_CFG)
                    + "INVARIANTS TypeOK WalkIsRef FailIsMissing ModelSatisfiesP CoreBelowFull Emit\nCHECK_DEADLOCK FALSE\n")
        res = tlc("MC_Discovery", cfg, work, workers=min(NCPU, 8), coverage=True, timeout=3000,
                  line_filter=lambda l: l.startswith('<<"REPLAY"') or l.startswith("Error") or "violated" in l)
        tlc_must_pass(res, "Discovery MC")
        require_actions(res, ACTIONS, "Discovery MC")
        allsc = sorted({f[0] for f in res.printed("REPLAY")})
        allsc = [json.loads(t) for t in allsc]
        if tier == "thorough":
            lcfg = os.path.join(work, "MC_Discovery_live.cfg")
            with open(lcfg, "w") as f:
                f.write("SPECIFICATION DFair\nCONSTANTS\n  Scenarios <- MCScen\n" + QUICK_CFG + "PROPERTIES Terminates\nCHECK_DEADLOCK FALSE\n")
            lres = tlc("MC_Discovery", lcfg, work, workers=min(NCPU, 8), timeout=3000, line_filter=lambda l: l.startswith("Error") or "violated" in l)
            tlc_must_pass(lres, "Discovery liveness (Terminates)")
            cov["discovery_liveness_states"] = lres.distinct
        log(f"MC Discovery: {res.distinct} distinct states, {len(allsc)} scenarios; the walk finds exactly the reference bag and satisfies DiscOk on all of them, {res.wall:.0f}s")
        cov["discovery_states"] = res.distinct
        cov["discovery_scenarios_enumerated"] = len(allsc)
        cov["discovery_mc_action_counts"] = {a: res.actions[a][1] for a in ACTIONS}
        want = 420 if tier == "quick" else 9000
        rnd = random.Random(s * 7907 + 29)
        # always run: the richest tree (nothing absent) with every argument list x pattern pair x link set
        rich = [v for v in allsc if all(c != "absent" for c in v["cls"].values()) and v["cls"]["a"] in ("md", "t") and v["cls"]["c"] == "markdown" and v["cls"]["e"] == "md"]
        rest = [v for v in allsc if v not in rich] if len(allsc) < 20000 else allsc
        chosen = rich + rnd.sample(rest, max(0, min(len(rest), want - len(rich))))
    with concurrent.futures.ThreadPoolExecutor(max_workers=min(NCPU, 12)) as ex:
        obs = list(ex.map(observe, chosen))
    records = [{"ev": "Run", "id": i + 1, "sc": sc, "obs": o} for i, (sc, o) in enumerate(zip(chosen, obs))]
    slim = lambda r: {"ev": "Run", "id": r["id"],
                      "sc": {k: r["sc"][k] for k in ("cls", "links", "mdpat", "crampat", "args")},
                      "obs": {k: r["obs"][k] for k in ("ran", "exit", "nres")}}
    results, printed = tlc_validate_sharded("DiscoveryTrace", "DiscoveryTrace.cfg", records, work, shards=min(NCPU, 6), slim=slim,
                                            tags=("VERDICT", "DRIFT"))
    for r in results:
        tlc_must_pass(r, "DiscoveryTrace VAL")
    validated = sum(r.distinct - 1 for r in results)
    if validated != len(records):
        raise ToolError(f"discovery trace validation consumed {validated} of {len(records)} records")
    byid = {r["id"]: r for r in records}
    for _p, rid in printed["VERDICT"]:
        r = byid[rid]
        sc = r["sc"]
        key = ("discovery: args=" + ",".join(sc["args"]) + f" md={sc['mdpat']} cram={sc['crampat']} links={'+'.join(sc['links']) or 'none'} "
               + "classes=" + ",".join(f"{n}:{c}" for n, c in sorted(sc["cls"].items())) + f" => ran {','.join(r['obs']['ran'])} exit={r['obs']['exit']} results={r['obs']['nres']}")
        V.violation(key, WHAT, {"discovery": sc, "observed": r["obs"]})
    nd = len(printed["DRIFT"])
    for _p, rid in printed["DRIFT"][:2]:
        r = byid[rid]
        V.add_drift(f"discovery run {rid}: the walk of the model predicts {r['sc']['full']} (failing={r['sc']['failing']}), observed ran={r['obs']['ran']} exit={r['obs']['exit']} for argv {r['obs']['argv']}")
    cov["discovery_runs_validated"] = validated
    cov["discovery_drift_runs"] = nd
    cov["discovery_sample"] = {"argv": records[0]["obs"]["argv"], "ran": records[0]["obs"]["ran"], "exit": records[0]["obs"]["exit"]} if records else None
    log(f"{prop} discovery leg: {validated} runs of the real binary on materialised file trees validated by TLC, drift={nd}, {time.time()-t0:.0f}s")
    return validated

"""C05 / C14 / C15 / C20 — `scrut test` end to end: TLC model-checks the TestCommand machine against the
property predicates and generates scenarios; each scenario is materialised as real documents and run with
the real binary; TLC evaluates the predicates on every observed run."""
import concurrent.futures
import json
import os
import random
import time

import p_discovery
import scenario
from lib import *

WHAT = {
    "C05": "a test case was reported as succeeded without having completed with the expected exit code and accepted output (or a wrong exit code was not reported as such)",
    "C14": "a limit was exceeded without the test case being reported as timed out / the document being stopped in time (or a command inside all limits was reported as timed out)",
    "C15": "the skip exit code did not skip exactly the whole document (or something else produced skipped results)",
    "C20": "test cases were not run exactly once in order, results do not add up, or the exit status does not report the run",
}
ACTIONS = ["StartDoc", "PickLimit", "RunTest", "OnCode", "ValidateDoc", "EndDoc", "Finish"]
FOCUS_ACTIONS = {"C05": ["OnUnknown"], "C14": ["OnTimeout"], "C15": ["OnSkip", "OnUnknown"], "C20": ["OnSkip", "OnDetached", "OnUnknown", "OnScriptExit"]}
QUICK = {"C05": 450, "C14": 260, "C15": 400, "C20": 260}
THOROUGH = {"C05": 6000, "C14": 400, "C15": 4500, "C20": 6000}


def _cfg(work, name, focus, body):
    path = os.path.join(work, name)
    with open(path, "w") as f:
        f.write(f'SPECIFICATION Spec\nCONSTANTS\n  Focus = "{focus}"\n{body}\nCHECK_DEADLOCK FALSE\n')
    return path


def shape_key(prop, sc, obs):
    """a specific but class-level description of the failing run: formats, behaviours, results"""
    docs = []
    for i, d in enumerate(sc["docs"]):
        A = scenario.assembled(sc, i)
        docs.append(d["fmt"] + "[" + ",".join(
            ("det" if t["det"] else t["beh"] + str(t["code"])) + (f"/exp{t['exp']}" if t["exp"] != -1 else "")
            + ("/slow" if t["dur"] else "") + (f"/t{t['t']}" if t["t"] != -1 else "")
            + (":" + t["expect"] if t["expect"] != "match" else "") for t in A) + "]"
            + (f"T{d['tfm']}" if d["tfm"] != -1 else "") + (f"deft{d['tdef']}" if d.get("tdef", -1) != -1 else "") + (f"skip{d['skipdef']}" if d["skipdef"] != -1 else "") + (f"defstream={d['sdef']}" if d.get("sdef", "unset") != "unset" else "")
            + (":" + d["fault"] if d["fault"] != "no" else ""))
    return f"{'+'.join(docs)}" + (f" cliT{sc['tcli']}" if sc["tcli"] != -1 else "") + (" noshell" if sc["noshell"] else "") \
        + f" => {obs['res']} exit={obs['exit']}"


def known_class(prop, sc, obs):
    """map a violating run onto the key of a listed known finding, if it is exactly that finding"""
    return None


def run(prop, tier, replay=None):
    t0 = time.time()
    work = workdir(f"{prop}-{tier}")
    build_s = build(need_scrut_bin=True, allow_broken_harness=True)      # (this check drives only the scrut binary)
    V = Verdicts(prop)
    s = seed()
    cov = {}
    if replay:
        with open(replay) as f:
            body = json.load(f)
        if "discovery" in body["replay"]:      # a violation of the file-discovery leg (specs/Discovery.tla)
            p_discovery.leg(prop, tier, work, V, cov, replay_sc=body["replay"]["discovery"])
            code, nviol, known = V.finish()
            log(f"{prop}: discovery replay, {nviol} violation(s)")
            return code
        scn = body["replay"]["scenario"]
        for fld, dflt in (("dirarg", False), ("compat", False), ("rel", False), ("pre2", []), ("app2", [])):      # replay files written before a field existed
            scn.setdefault(fld, dflt)
        for d_ in scn["docs"]:
            for t_ in d_["tests"]:
                t_.setdefault("sab", False)
            d_.setdefault("tdef", -1)
            d_.setdefault("sdef", "unset")
        chosen = [{"sc": scn, "predict": None}]
        states = trans = 0
    else:
        cfg = _cfg(work, "MC.cfg", prop, "INVARIANTS TypeOK InvC05 InvC14 InvC15 InvC20 Emit")
        res = tlc("MC_TestCommand", cfg, work, workers=min(NCPU, 8), coverage=True, timeout=3000,
                  line_filter=lambda l: l.startswith('<<"REPLAY"') or l.startswith("Error") or "violated" in l)
        tlc_must_pass(res, f"TestCommand MC[{prop}]")
        require_actions(res, ACTIONS + FOCUS_ACTIONS[prop], f"TestCommand MC[{prop}]")
        states, trans = res.distinct, res.generated
        if prop == "C14" and tier == "thorough":
            # liveness: under weak fairness every run of the model ends (hanging commands are cut by the limits)
            lpath = os.path.join(work, "MC_live.cfg")
            with open(lpath, "w") as f:
                f.write('SPECIFICATION FairSpec\nCONSTANTS\n  Focus = "C14"\nPROPERTIES Terminates\nCHECK_DEADLOCK FALSE\n')
            lres = tlc("MC_TestCommand", lpath, work, workers=min(NCPU, 8), timeout=3000, line_filter=lambda l: l.startswith("Error") or "violated" in l)
            tlc_must_pass(lres, "TestCommand liveness (Terminates)")
            cov["liveness_terminates_states"] = lres.distinct
            log(f"MC TestCommand[C14] liveness: <>Done holds under weak fairness on {lres.distinct} states, {lres.wall:.0f}s")
        cov["mc_action_counts"] = {a: res.actions[a][1] for a in res.actions if a[0].isupper() and a not in ("Init",)}
        allsc = sorted((json.loads(f[0]) for f in res.printed("REPLAY")), key=lambda v: json.dumps(v, sort_keys=True))
        log(f"MC TestCommand[{prop}]: {res.distinct} distinct states, {len(allsc)} scenarios, all four property invariants hold on the model, {res.wall:.0f}s")
        want = QUICK[prop] if tier == "quick" else THOROUGH[prop]
        rnd = random.Random(s * 1000003 + 17)
        if len(allsc) <= want:
            chosen = allsc
        else:
            # always keep the small ones (single-test documents), sample the rest
            rare = lambda v: v["sc"]["noshell"] or any(d["fault"] != "no" or any(t["dur"] > 0 for t in d["tests"]) for d in v["sc"]["docs"])
            # a detached test case followed by a test case that cuts the document short (family DetachedAndCut): always run
            def detcut(v):
                for d in v["sc"]["docs"]:
                    ts = d["tests"]
                    for i, t in enumerate(ts):
                        if t["det"] and len(ts) == 3 and any(u["dur"] > 0 or u["beh"] == "signal" or u["code"] == 80 for u in ts[i + 1:]):
                            return True
                return False
            small = [v for v in allsc if sum(len(d["tests"]) for d in v["sc"]["docs"]) <= 1 or (prop in ("C20", "C05") and rare(v)) or detcut(v) or v["sc"].get("compat") or v["sc"].get("rel") or v["sc"]["via"] == "fm2" or any(t.get("sab") for d in v["sc"]["docs"] for t in d["tests"])
                     or (prop == "C05" and (v["sc"]["pre"] or v["sc"]["app"] or any(d.get("sdef", "unset") != "unset" for d in v["sc"]["docs"])))
                     or (prop == "C15" and any(t["beh"] == "signal" for d in v["sc"]["docs"] for t in d["tests"]))
                     or any(t["beh"] == "exitscript" and t["code"] == 3 for d in v["sc"]["docs"] for t in d["tests"])
                     or (v["sc"].get("dirarg") and len(v["sc"]["docs"]) == 3 and len(v["sc"]["docs"][0]["tests"]) == 1 and v["sc"]["docs"][0]["fmt"] == "md")]
            rest = [v for v in allsc if v not in small]
            chosen = small + rnd.sample(rest, max(0, want - len(small)))
        cov["scenarios_enumerated"] = len(allsc)
    # ---- run the real binary
    sleepy = prop == "C14"
    width = 16 if sleepy else min(NCPU, 12)

    def one(item):
        idx, v = item
        obs = scenario.observe(v["sc"], want_summary=(prop == "C20"))
        obs["wallds"] = [int(w * 10) for w in obs.pop("wall_doc")]
        return {"ev": "Run", "id": idx + 1, "sc": v["sc"], "obs": obs, "predict": v.get("predict")}
    with concurrent.futures.ThreadPoolExecutor(max_workers=width) as ex:
        records = list(ex.map(one, enumerate(chosen)))
    log(f"ran {len(records)} scenarios with the real binary ({time.time()-t0:.0f}s so far)")
    # ---- DRIFT: observed results differ from the (A) machine's prediction
    ndrift = 0
    for r in records:
        p = r.get("predict")
        if p and (p["exit"] != r["obs"]["exit"] or (p["exit"] != 1 and p["res"] != r["obs"]["res"])):
            ndrift += 1
            if ndrift <= 3:
                V.add_drift(f"scenario {r['id']}: model predicts {p['res']} exit {p['exit']}, observed {r['obs']['res']} exit {r['obs']['exit']}")
    # ---- VAL(A): hook events (PickLimit / ExecEnd / DocStart) are steps of the (A) machine
    steps = []
    for r in records:
        ev = r["obs"].pop("events", [])
        if r["sc"].get("dirarg"):
            continue        # the order among the documents of a directory is unspecified: no step-level comparison
        steps.append({"ev": "Scenario", "sc": r["sc"], "id": r["id"]})
        for e in ev:
            steps.append({k2: e[k2] for k2 in e if k2 not in ("seq", "pid", "path", "format")})
    spath = os.path.join(work, "steps.ndjson")
    write_ndjson(spath, steps)
    rs_ = tlc("TestCommandStepTrace", "TestCommandStepTrace.cfg", work, workers=1, env={"TRACE": spath}, depth_first=True, timeout=1200,
              line_filter=lambda l: l.startswith("<<") or l.startswith("Error") or "violated" in l)
    accepted = bool(rs_.printed("ACCEPTED"))
    cov_steps = {"step_events_total": len(steps), "step_trace_accepted": accepted}
    if not accepted:
        dr = rs_.printed("DRIFT")
        ndrift_steps = 1
        V.add_drift(f"step trace rejected at event {dr[0][0] if dr else '?'} of {len(steps)}: {str(dr[0][1])[:200] if dr else rs_.error}")
    # ---- VAL(P)
    slim = lambda r: {"ev": "Run", "id": r["id"], "sc": r["sc"],
                      "obs": {k: r["obs"][k] for k in ("res", "ran", "exit", "aborted", "dupes", "sumok", "wallds", "late")}}
    results, printed = tlc_validate_sharded("TestCommandTrace", "TestCommandTrace.cfg", records, work,
                                            shards=min(NCPU, 8), slim=slim)
    for r in results:
        tlc_must_pass(r, "TestCommandTrace VAL")
    validated = sum(r.distinct - 1 for r in results)
    if validated != len(records):
        raise ToolError(f"trace validation consumed {validated} of {len(records)} records")
    byid = {r["id"]: r for r in records}
    sibling = 0
    for p, rid in printed["VERDICT"]:
        if p != prop:
            sibling += 1
            continue
        r = byid[rid]
        key = known_class(prop, r["sc"], r["obs"]) or shape_key(prop, r["sc"], r["obs"])
        V.violation(key, WHAT[prop], {"scenario": r["sc"], "observed": r["obs"], "model_prediction": r.get("predict")})
    if prop == "C20" and not replay:
        validated += p_discovery.leg(prop, tier, work, V, cov)
    code, nviol, known = V.finish()
    if not replay:
        cov.update({
            "states": states, "transitions": trans,
            "traces_validated_against_impl": validated,
            "samples": [{"scenario": r["sc"], "observed": {k: r["obs"][k] for k in ("res", "ran", "exit")}} for r in records[:2]],
            "evaluations": len(records) + cov.get("discovery_runs_validated", 0),
            "distinct_nontrivial": len({json.dumps(r["sc"], sort_keys=True) for r in records
                                        if sum(len(d["tests"]) for d in r["sc"]["docs"]) >= 2}),
            "rule": "one evaluation = one run of the real scrut binary on a materialised scenario; non-trivial = at least two test cases; distinct by scenario",
            "drift_runs": ndrift, **cov_steps,
            "verdict_lines_for_sibling_properties": sibling,
            "known_findings_seen": known,
            "build_s": round(build_s, 1),
            "exhaustive": len(records) == cov.get("scenarios_enumerated", -1),
        })
        write_evidence(prop, tier, "model_checking", cov,
                       ["TLC evaluates the predicates correctly", "bash, sleep, kill behave as usual; scenario commands are built from printf / exit / kill / sleep only",
                        "ground truth of each scenario (what the command does, whether the configured stream is accepted) is fixed by construction of the materialised document",
                        "timing: durations 0 or 3 s against limits 1 or 6 s; wall-clock slack 1.5 s"],
                       time.time() - t0, nviol)
    log(f"{prop}: {validated} runs of the real binary validated by TLC, {nviol} violation(s), drift={ndrift}, {time.time()-t0:.0f}s")
    return code

"""C10 — update: enumerated Markdown documents (specs/MarkdownDoc.tla) x per-test outcome classes are pushed through
the real MarkdownUpdateGenerator; TLC judges preservation, block identity, idempotence and command equality."""
import json
import os
import time

import lib
from lib import *

import concurrent.futures
import random
import shutil
import subprocess
import tempfile

C1 = """#!/bin/bash
n=$(cat "$VERIF_OUT/counter" 2>/dev/null || echo 0); n=$((n+1)); echo $n > "$VERIF_OUT/counter"
cat "$VERIF_OUT/$n.out"; cp "$VERIF_OUT/$n.code" "$VERIF_OUT/last.code"; exit $(cat "$VERIF_OUT/$n.code")
"""
CN = """#!/bin/bash
exit $(cat "$VERIF_OUT/last.code" 2>/dev/null || echo 0)
"""


def e2e_update(r):
    """the real `scrut update --replace --assume-yes` on the document, with commands that produce the outputs of the record"""
    root = tempfile.mkdtemp(prefix="scrut-verif-upd-", dir=os.environ.get("VERIF_SCRATCH", "/tmp"))
    try:
        bindir, outdir = os.path.join(root, "bin"), os.path.join(root, "out")
        os.makedirs(bindir); os.makedirs(outdir); os.makedirs(os.path.join(root, "tmp"))
        for name, body in (("c1", C1), ("c2", CN), ("c3", CN), ("x", CN)):
            with open(os.path.join(bindir, name), "w") as f:
                f.write(body)
            os.chmod(os.path.join(bindir, name), 0o755)
        for n, o in enumerate(r["outputs"]):
            with open(os.path.join(outdir, f"{n + 1}.out"), "wb") as f:
                f.write(bytes(o["stdout"]))
            with open(os.path.join(outdir, f"{n + 1}.code"), "w") as f:
                f.write(str(o["code"]))
        doc = os.path.join(root, "doc.md")
        original = "\n".join(l["txt"] for l in r["lines"]) + "\n"
        with open(doc, "w") as f:
            f.write(original)
        env = dict(os.environ, TMPDIR=os.path.join(root, "tmp"), NO_COLOR="1", VERIF_OUT=outdir, PATH=bindir + ":" + os.environ.get("PATH", ""))
        env.pop("SCRUT_VERIF_TRACE", None)
        esc = ["--escaping", r["escaper"].lower()]

        def scrut(args):
            with open(os.path.join(outdir, "counter"), "w") as f:
                f.write("0")
            return subprocess.run([SCRUT_BIN] + args, cwd=root, env=env, stdout=subprocess.PIPE, stderr=subprocess.PIPE, timeout=60)
        langs = ["--markdown-languages", "scrut", "sh"]
        u1 = scrut(["update", "--no-color", "--replace", "--assume-yes"] + esc + [doc] + langs)
        after1 = open(doc, errors="replace").read()
        u2 = scrut(["update", "--no-color", "--replace", "--assume-yes"] + esc + [doc] + langs)
        after2 = open(doc, errors="replace").read()
        t = scrut(["test", "--no-color", "-r", "json", doc] + langs)
        problems = []
        if u1.returncode != 0:
            problems.append(f"update exits {u1.returncode}: {u1.stderr.decode('utf-8', 'replace')[-160:]}")
        if after1 != r["updated"]:
            problems.append("file written by the CLI differs from the update generator's result for the same outcomes")
        if after2 != after1:
            problems.append("second `scrut update` changed the file again")
        if t.returncode != 0:
            problems.append(f"`scrut test` on the updated file exits {t.returncode}")
        return {"ok": not problems, "problems": problems, "file_after_update": after1}
    except subprocess.TimeoutExpired:
        return {"ok": False, "problems": ["timeout"], "file_after_update": ""}
    finally:
        shutil.rmtree(root, ignore_errors=True)


WHAT = "update changed something outside the failing expectations (or is not idempotent / changed the commands / crashed)"


def run(prop, tier, replay=None):
    t0 = time.time()
    work = workdir(f"{prop}-{tier}")
    build_s = build(need_scrut_bin=True, allow_broken_harness=True)
    V = Verdicts(prop)
    s = seed()
    cov = {}
    if lib.HARNESS_BROKEN[0] and not replay:
        # the harness does not compile against /repo any more: the leg that drives only the binary still runs
        import p_updatecmd
        p_updatecmd.stage(prop, tier, work, V, cov, s)
        code, nviol, known = V.finish()
        if nviol == 0:
            tool_error("harness build failed (does /repo still compile with --features verif?); the update-command leg found no violation")
        return code
    if replay:
        with open(replay) as f:
            body = json.load(f)
        if body["replay"].get("stage") == "updatecmd":
            import p_updatecmd
            p_updatecmd.stage(prop, tier, work, V, cov, s, replay_body=body["replay"])
            code, nviol, known = V.finish()
            return code
        vectors = [body["replay"]["vector"]]
        states = trans = 0
    else:
        cfg = os.path.join(work, "MC.cfg")
        with open(cfg, "w") as f:
            f.write(f'SPECIFICATION Spec\nCONSTANTS\n  Tier = "{tier}"\nINVARIANTS TypeOK Agrees Emit\nCHECK_DEADLOCK FALSE\n')
        res = tlc("MC_MarkdownDoc", cfg, work, workers=min(NCPU, 12), timeout=3000,
                  line_filter=lambda l: l.startswith('<<"REPLAY"') or l.startswith("Error") or "violated" in l)
        tlc_must_pass(res, "MarkdownDoc MC")
        states, trans = res.distinct, res.generated
        vectors = [json.loads(t) for t in sorted({f[0] for f in res.printed("REPLAY")})]
        log(f"MC MarkdownDoc[{tier}]: {res.distinct} states, {len(vectors)} documents, {res.wall:.0f}s")
    vpath, rpath = os.path.join(work, "vectors.ndjson"), os.path.join(work, "records.ndjson")
    write_ndjson(vpath, vectors)
    harness(["update-replay", "--vectors", vpath, "--records", rpath, "--seed", s])
    records = read_ndjson(rpath)
    unrealised = [r for r in records if r["ev"] == "Unrealised"]
    records = [r for r in records if r["ev"] != "Unrealised"]
    if unrealised:
        # an outcome assignment the harness could not realise with constructed outputs (on the unchanged tree: none)
        print(f"DRIFT update: {len(unrealised)} outcome assignment(s) could not be realised with constructed outputs and were not judged")
    if len(unrealised) > len(records):
        raise ToolError("most outcome assignments could not be realised")
    if not records:
        raise ToolError("no document was usable for update")
    # end to end sample: the real `scrut update --replace -y` with commands that produce the record's outputs; a failure
    # makes the record's observation fail (idempotent / reparse_passes), so that TLC reports it
    rnd = random.Random(s * 17 + 3)
    good = [r for r in records if r["obs"]["result"] == "ok" and r["obs"]["decomposed"] and r["obs"]["idempotent"] and r["obs"]["reparse_passes"]
            and all(sg["term"] for sg in r["segs"]) and not any("@U@" in l["txt"] or "a\u00fc" in l["txt"] or l["txt"].startswith("> > ") for l in r["lines"])]   # (`> c4` as a shell line is a redirection that resets the exit code)
    sample = good if replay else rnd.sample(good, min(len(good), 60 if tier == "quick" else 800))
    with concurrent.futures.ThreadPoolExecutor(max_workers=min(NCPU, 12)) as ex:
        for r, e in zip(sample, ex.map(e2e_update, sample)):
            r["e2e"] = e
            if not e["ok"]:
                r["obs"]["idempotent"] = False
                r["obs"]["detail"] = "end to end: " + "; ".join(e["problems"])
    cov["end_to_end_update_runs"] = len(sample)
    results, printed = tlc_validate_sharded("UpdateTrace", "UpdateTrace.cfg", records, work, shards=min(NCPU, 12),
                                            slim=lambda r: {k: r[k] for k in ("ev", "id", "lines", "segs", "outcomes", "chunks", "obs")},
                                            tags=("VERDICT", "TOOL"))
    for r in results:
        tlc_must_pass(r, "UpdateTrace VAL")
    validated = sum(r.distinct - 1 for r in results)
    if validated != len(records):
        raise ToolError(f"trace validation consumed {validated} of {len(records)} records")
    if printed["TOOL"]:
        raise ToolError(f"the scanner's chunks differ from the spec's chunks for {len(printed['TOOL'])} records")
    byid = {r["id"]: r for r in records}
    vec_of = {i + 1: v for i, v in enumerate(vectors)}
    for _p, rid in printed["VERDICT"]:
        r = byid[rid]
        o = r["obs"]
        kinds = "+".join(f"{sg['k']}{'' if sg['term'] else '!unterminated'}{'' if sg['k'] != 'scrut' or sg['hascmd'] else '!nocmd'}{'' if sg['n'] == sg['cn'] else '!longclose'}" for sg in r["segs"])
        if o["result"] != "ok":
            why = o["result"] + ":" + o["detail"][:40]
        elif not o["decomposed"]:
            why = "outside-lines-or-block-structure-changed"
        elif not o["same_commands"]:
            why = "commands-changed"
        elif not o["reparse_passes"]:
            why = "updated-test-does-not-pass"
        elif "e2e" in r and not r["e2e"]["ok"]:
            why = "end-to-end:" + r["e2e"]["problems"][0][:60]
        elif not o["idempotent"]:
            why = "not-idempotent"
        else:
            why = "block-content(lang/config/comments/passing-lines)"
        key = f"{why}:{kinds}:outcomes={','.join(r['outcomes'])}"
        # the C09 collision (an output line `> x` directly after the command is re-read as a continuation) seen through update:
        # a NON-passing test whose first output line starts with `> `
        gt_first = any(oc != "pass" and bytes(o["stdout"][:2]) == b"> " for oc, o in zip([x for x in r["outcomes"] if x != "none"], r["outputs"]))
        if gt_first and (not o["same_commands"] or not o["reparse_passes"] or not o["idempotent"]):
            key = "collision:first-output-line-of-a-failing-test-looks-like-a-continuation"
        V.violation(key, WHAT,
                    {"vector": vec_of.get(rid // 100), "outcomes": r["outcomes"], "document": [l["txt"] for l in r["lines"]],
                     "updated": r["updated"], "observed": o, "escaper": r["escaper"]})
    # the command at file level: specs/UpdateCommand.tla against runs of the real binary
    ncmd = 0
    if not replay:
        import p_updatecmd
        ncmd = p_updatecmd.stage(prop, tier, work, V, cov, s)
    code, nviol, known = V.finish()
    if not replay:
        cov.update({
            "states": states, "transitions": trans, "traces_validated_against_impl": validated,
            "samples": [{"document": [l["txt"] for l in r["lines"]], "outcomes": r["outcomes"], "updated": r["updated"]} for r in records[500:502]],
            "evaluations": len(records),
            "distinct_nontrivial": len({(json.dumps([l["txt"] for l in r["lines"]]), tuple(r["outcomes"])) for r in records if any(x != "pass" for x in r["outcomes"])}),
            "rule": "one evaluation = update + scan + re-parse + re-validate + second update for one (document, outcome assignment); non-trivial = at least one failing test; distinct by (document, assignment)",
            "known_findings_seen": known, "build_s": round(build_s, 1), "exhaustive": True,
        })
        write_evidence(prop, tier, "model_checking", cov,
                       ["TLC", "documents that the parser rejects (or reads differently from the reference) are C06's subject and are not used here",
                        "line terminators are normalised (scrut documents that it never writes CRLF)"], time.time() - t0, nviol)
    log(f"{prop}: {validated} updates and {ncmd} runs of the update command validated by TLC, {nviol} violation(s), {time.time()-t0:.0f}s")
    return code

"""C10 — update: enumerated Markdown documents (specs/MarkdownDoc.tla) x per-test outcome classes are pushed through
the real MarkdownUpdateGenerator; TLC judges preservation, block identity, idempotence and command equality."""
import json
import os
import time

from lib import *

WHAT = "update changed something outside the failing expectations (or is not idempotent / changed the commands / crashed)"


def run(prop, tier, replay=None):
    t0 = time.time()
    work = workdir(f"{prop}-{tier}")
    build_s = build()
    V = Verdicts(prop)
    s = seed()
    cov = {}
    if replay:
        with open(replay) as f:
            body = json.load(f)
        vectors = [body["replay"]["vector"]]
        states = trans = 0
    else:
        cfg = os.path.join(work, "MC.cfg")
        with open(cfg, "w") as f:
            f.write(f'SPECIFICATION Spec\nCONSTANTS\n  Tier = "{tier}"\nINVARIANTS TypeOK Agrees Emit\nCHECK_DEADLOCK FALSE\n')
        res = tlc("MC_MarkdownDoc", cfg, work, workers=min(NCPU, 12), timeout=3000,
                  line_filter=lambda l: l.startswith('<<"REPLAY"') or l.startswith("Error") or "violated" in l)
        tlc_must_pass(res, "MarkdownDoc MC")
        states, trans = res.distinct, res.generated
        vectors = [json.loads(t) for t in sorted({f[0] for f in res.printed("REPLAY")})]
        log(f"MC MarkdownDoc[{tier}]: {res.distinct} states, {len(vectors)} documents, {res.wall:.0f}s")
    vpath, rpath = os.path.join(work, "vectors.ndjson"), os.path.join(work, "records.ndjson")
    write_ndjson(vpath, vectors)
    harness(["update-replay", "--vectors", vpath, "--records", rpath, "--seed", s])
    records = read_ndjson(rpath)
    if not records:
        raise ToolError("no document was usable for update")
    results, printed = tlc_validate_sharded("UpdateTrace", "UpdateTrace.cfg", records, work, shards=min(NCPU, 12),
                                            slim=lambda r: {k: r[k] for k in ("ev", "id", "lines", "segs", "outcomes", "chunks", "obs")},
                                            tags=("VERDICT", "TOOL"))
    for r in results:
        tlc_must_pass(r, "UpdateTrace VAL")
    validated = sum(r.distinct - 1 for r in results)
    if validated != len(records):
        raise ToolError(f"trace validation consumed {validated} of {len(records)} records")
    if printed["TOOL"]:
        raise ToolError(f"the scanner's chunks differ from the spec's chunks for {len(printed['TOOL'])} records")
    byid = {r["id"]: r for r in records}
    vec_of = {i + 1: v for i, v in enumerate(vectors)}
    for _p, rid in printed["VERDICT"]:
        r = byid[rid]
        o = r["obs"]
        kinds = "+".join(f"{sg['k']}{'' if sg['term'] else '!unterminated'}{'' if sg['k'] != 'scrut' or sg['hascmd'] else '!nocmd'}{'' if sg['n'] == sg['cn'] else '!longclose'}" for sg in r["segs"])
        if o["result"] != "ok":
            why = o["result"] + ":" + o["detail"][:40]
        elif not o["decomposed"]:
            why = "outside-lines-or-block-structure-changed"
        elif not o["same_commands"]:
            why = "commands-changed"
        elif not o["reparse_passes"]:
            why = "updated-test-does-not-pass"
        elif not o["idempotent"]:
            why = "not-idempotent"
        else:
            why = "block-content(lang/config/comments/passing-lines)"
        V.violation(f"{why}:{kinds}:outcomes={','.join(r['outcomes'])}", WHAT,
                    {"vector": vec_of.get(rid // 100), "outcomes": r["outcomes"], "document": [l["txt"] for l in r["lines"]],
                     "updated": r["updated"], "observed": o, "escaper": r["escaper"]})
    code, nviol, known = V.finish()
    if not replay:
        cov.update({
            "states": states, "transitions": trans, "traces_validated_against_impl": validated,
            "samples": [{"document": [l["txt"] for l in r["lines"]], "outcomes": r["outcomes"], "updated": r["updated"]} for r in records[500:502]],
            "evaluations": len(records),
            "distinct_nontrivial": len({(json.dumps([l["txt"] for l in r["lines"]]), tuple(r["outcomes"])) for r in records if any(x != "pass" for x in r["outcomes"])}),
            "rule": "one evaluation = update + scan + re-parse + re-validate + second update for one (document, outcome assignment); non-trivial = at least one failing test; distinct by (document, assignment)",
            "known_findings_seen": known, "build_s": round(build_s, 1), "exhaustive": True,
        })
        write_evidence(prop, tier, "model_checking", cov,
                       ["TLC", "documents that the parser rejects (or reads differently from the reference) are C06's subject and are not used here",
                        "line terminators are normalised (scrut documents that it never writes CRLF)"], time.time() - t0, nviol)
    log(f"{prop}: {validated} updates validated by TLC, {nviol} violation(s), {time.time()-t0:.0f}s")
    return code

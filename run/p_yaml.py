"""C17 — ConfigRoundTrip: TLC enumerates configurations by value class; each is rendered (one-line form through the
Markdown test-case generator; YAML front-matter through the Serialize implementation) and parsed back with the real
Markdown parser; TLC judges equality key by key."""
import json
import os
import time

from lib import *

WHAT = "a rendered configuration does not parse back to an equal configuration"


def run(prop, tier, replay=None):
    t0 = time.time()
    work = workdir(f"{prop}-{tier}")
    build_s = build()
    V = Verdicts(prop)
    cov = {}
    if replay:
        with open(replay) as f:
            body = json.load(f)
        vectors = [body["replay"]["vector"]]
        states = trans = 0
    else:
        cfg = os.path.join(work, "MC.cfg")
        with open(cfg, "w") as f:
            f.write(f'SPECIFICATION Spec\nCONSTANTS\n  Tier = "{tier}"\nINVARIANTS TypeOK Emit\nCHECK_DEADLOCK FALSE\n')
        res = tlc("MC_ConfigRoundTrip", cfg, work, workers=4, timeout=3000,
                  line_filter=lambda l: l.startswith('<<"REPLAY"') or l.startswith("Error") or "violated" in l)
        tlc_must_pass(res, "ConfigRoundTrip GEN")
        vectors = [json.loads(t) for t in sorted({f[0] for f in res.printed("REPLAY")})]
        for i, v in enumerate(vectors):
            v["id"] = i + 1
        states, trans = res.distinct, res.generated
        log(f"GEN ConfigRoundTrip[{tier}]: {len(vectors)} configurations x forms, {res.wall:.0f}s")
        # sweep: one character (every code point in the range / step) alone, inside, at the start and at the end of an
        # environment value and of a wait path, both forms; judged by the same C17ok
        unset = {k: "unset" for k in vectors[0]["cfg"]}
        cps = list(range(0, 0x100)) + (list(range(0x100, 0x3000)) + list(range(0x3000, 0x110000, 101)) if tier == "thorough" else list(range(0x100, 0x110000, 211)))
        cps = [c for c in cps if not 0xD800 <= c <= 0xDFFF]
        ctxs = ("alone", "mid", "lead", "trail") if tier == "thorough" else ("alone", "mid")
        nsweep = 0
        for c in cps:
            for ctx in ctxs:
                for form in ("one_liner", "front_matter"):
                    cls = f"cp:{c:x}:{ctx}"
                    vectors.append({"id": len(vectors) + 1, "cfg": dict(unset), "env": [cls, "plain"], "form": form, "sweep": True})
                    if c != 0:          # (a path cannot hold NUL)
                        vectors.append({"id": len(vectors) + 1, "cfg": dict(unset, wait=cls), "env": [], "form": form, "sweep": True})
                    nsweep += 2
        cov["sweep_vectors"] = nsweep
        log(f"sweep: {len(cps)} code points x {len(ctxs)} contexts x 2 forms as environment value and as wait path")
    vpath, rpath = os.path.join(work, "vectors.ndjson"), os.path.join(work, "records.ndjson")
    write_ndjson(vpath, vectors)
    harness(["yaml-replay", "--vectors", vpath, "--records", rpath])
    records = read_ndjson(rpath)
    tcfg = os.path.join(work, "Trace.cfg")
    with open(tcfg, "w") as f:
        f.write(f'SPECIFICATION TraceSpec\nCONSTANTS\n  Tier = "{tier}"\nINVARIANTS Verdicts\nPOSTCONDITION Accepted\nCHECK_DEADLOCK FALSE\n')
    results, printed = tlc_validate_sharded("ConfigRoundTripTrace", tcfg, records, work, shards=4,
                                            slim=lambda r: {k: r[k] for k in ("ev", "id", "cfg", "env", "form")} | {"obs": {k: r["obs"][k] for k in ("rendered", "parsed", "orig", "back")}})
    for r in results:
        tlc_must_pass(r, "ConfigRoundTripTrace VAL")
    validated = sum(r.distinct - 1 for r in results)
    if validated != len(records):
        raise ToolError(f"trace validation consumed {validated} of {len(records)} records")
    byid = {r["id"]: r for r in records}
    vec = {v["id"]: v for v in vectors}
    for _p, rid in printed["VERDICT"]:
        r = byid[rid]
        o = r["obs"]
        if not o["rendered"]:
            keys = ["render-failed:" + o["detail"][:40]]
        elif not o["parsed"]:
            culprits = [("char(U+%04X):%s" % (int(c.split(":")[1], 16), c.split(":")[2])) if c.startswith("cp:") else c for c in r["env"] if c not in ("plain",)] or [k + "=" + v for k, v in r["cfg"].items() if k == "wait" and v != "unset"] or ["?"]
            keys = [f"{r['form']}:does-not-parse:" + ("env=" + c if c in r["env"] else c) for c in culprits]
        else:
            diff = sorted(k for k in set(o["orig"]) | set(o["back"]) if o["orig"].get(k) != o["back"].get(k))
            keys = []
            for k in diff:
                base = k.split(".")[-1]
                cls = r["cfg"].get(base)
                if base.startswith("VAR_"):
                    cls = r["env"][0 if base == "VAR_ONE" else 1]
                if cls and cls.startswith("cp:"):       # swept character: the key names the character's category and the context
                    import unicodedata
                    cp = int(cls.split(":")[1], 16)
                    cls = f"char({unicodedata.category(chr(cp))}{',U+%04X' % cp if cp < 0x100 or unicodedata.category(chr(cp)).startswith(('Z', 'C')) else ''}):{cls.split(':')[2]}"
                keys.append(f"{r['form']}:changed:{k.split('.')[0] if '.' in k and not k.startswith('env') else ''}{'env' if base.startswith('VAR_') else base}={cls}")
        for key in sorted(set(keys)):
            V.violation(key, WHAT, {"vector": vec.get(rid, {k: r[k] for k in ("cfg", "env", "form")}), "rendered_text": o["text"], "detail": o["detail"],
                                    "orig": o["orig"], "back": o["back"]})
    code, nviol, known = V.finish()
    if not replay:
        cov.update({
            "states": states, "transitions": max(trans, 1), "traces_validated_against_impl": validated,
            "samples": [{"cfg": r["cfg"], "env": r["env"], "form": r["form"], "text": r["obs"]["text"]} for r in records if r["obs"]["parsed"]][100:102],
            "evaluations": len(records),
            "distinct_nontrivial": len({json.dumps([r["cfg"], r["env"], r["form"]], sort_keys=True) for r in records if r["env"] or any(v != "unset" for v in r["cfg"].values())}),
            "rule": "one evaluation = render + parse + key-wise comparison of one configuration in one form; non-trivial = at least one key or variable set",
            "known_findings_seen": known, "build_s": round(build_s, 1), "exhaustive": True,
        })
        write_evidence(prop, tier, "model_checking", cov,
                       ["TLC is the enumerator and the judge of key-wise equality; the YAML library (serde_yaml) and humantime are only observed",
                        "one concrete value per value class"], time.time() - t0, nviol)
    log(f"{prop}: {validated} round trips validated by TLC, {nviol} violation(s), {time.time()-t0:.0f}s")
    return code

#!/usr/bin/env python3
"""Regenerates /verif/MANIFEST.json from the table below (single source of truth for the interface)."""
import json
import os
import subprocess

VERIF = os.path.dirname(os.path.dirname(os.path.abspath(__file__)))

CHECKS = {
    "C01": dict(
        engine="DiffAlgo",
        text="TLC proves on the TLA+ transcription of DiffTool::diff (specs/DiffAlgo.tla) that a result without differences implies membership in the language e1{q1}..en{qn} for EVERY match matrix x quantifier vector up to 3x3 (thorough: 4x3, 3x4, 2x5); every one of those abstract inputs is then concretised into real expectations/outputs, run through the real DiffTool::diff and TestCase::validate, and TLC evaluates the same predicate (Sound / InLang) on each implementation record, plus on random records up to 8x14. Step events from hooks in diff.rs are validated against the spec's actions.",
        note="Trusted: TLC; the matrix abstraction (exact: diff() consults rules only through matches(); the realised matrix is recomputed per record); beyond 3x3 only sampled. Rule engines are not part of this property (C04).",
        technique="TLA+ spec of the matcher, TLC exhaustive check + TLC-generated vectors replayed into DiffTool::diff + TLC trace validation of recorded results and step events",
        ref="3 (C01-C03), Appendix A.1"),
    "C02": dict(
        engine="DiffAlgo",
        text="Same pipeline as C01 with the Conserve predicate: TLC checks on the model, and then on every implementation record, that the result mentions lines 1..m exactly once in order, every Matched entry really matches and is single-line unless multiline, every non-optional expectation is mentioned exactly once and optional ones at most once in order, has_differences agrees with the entries, the line bytes concatenate to the output, and the call returned (panic / hang are caught and count as violations). Termination measure checked as an action property.",
        note="Trusted: TLC; concretisation self-checks. Very long outputs are covered by the C13/C19 checks, not here.",
        technique="TLA+ spec of the matcher, TLC exhaustive check + replay into DiffTool::diff + TLC trace validation",
        ref="3 (C01-C03)"),
    "C03": dict(
        engine="DiffAlgo",
        text="Same pipeline as C01 with the Complete predicate: whenever the one-line-lookahead determinism condition Det holds for (expectations, output) and the output is in the language, the real code must report no differences and validate() must return Ok on stdout and stderr selection. Det/InLang are evaluated by TLC on each implementation record from the realised match matrix.",
        note="Trusted: TLC; Det is exactly the follow-set condition of the property statement. Vacuity is controlled: the number of deterministic accepted records is reported and must be > 0.",
        technique="TLA+ spec of the matcher, TLC exhaustive check + replay into DiffTool::diff + TLC trace validation",
        ref="3 (C01-C03)"),
}

CHECKS["C04"] = dict(
    engine="Rules",
    text="The documented meaning of each expectation kind (equal, no-eol, escaped with its escape sequences, glob with ?/*, Cram glob with escapes, escaped glob, regex as whole-line match over an AST with alternation/concatenation/repetition/classes) is written as TLA+ operators (specs/Rules.tla). TLC enumerates every (kind, expression) in the bound together with every candidate line and checks sanity theorems of the reference; the harness renders each expression as a user writes it, parses it through ExpectationMaker with the default and the Cram-compatible registry and asks the real rule for every candidate line; TLC then recomputes the documented verdict for each (expression, line) answer of the implementation and any disagreement (either direction of the iff) is a violation.",
    note="Trusted: TLC; my transcription of the documentation. The regex and wildmatch crates are observed only on the enumerated fragment (3-symbol alphabet incl. one multi-byte character, lines <= 3 characters). Malformed escaped expressions are not judged here.",
    technique="TLA+ reference semantics of the rule kinds, TLC-enumerated vectors replayed into the real rules, TLC re-evaluation of each recorded answer",
    ref="3 (C04)")

NOT_YET = {
}

ALL = [f"C{i:02d}" for i in range(1, 21)]


def main():
    hooks_commits = subprocess.run(["git", "-C", "/repo", "log", "--format=%H %s", "--grep=^verif hooks"],
                                   stdout=subprocess.PIPE, text=True).stdout.strip().splitlines()
    checks = []
    for pid in ALL:
        if pid not in CHECKS:
            continue
        c = CHECKS[pid]
        checks.append({
            "property_id": pid,
            "quick_cmd": f"python3 run/check.py {pid} --tier quick",
            "thorough_cmd": f"python3 run/check.py {pid} --tier thorough",
            "evidence_file": f"/verif/evidence/{pid}.json",
            "replay_cmd_template": f"python3 run/check.py {pid} --replay {{path}}",
            "engine": c["engine"],
            "level_claimed": {"category": c.get("category", "model_checking"), "text": c["text"],
                              "design_ref": "DESIGN.md section " + c["ref"]},
            "level_note": c["note"],
            "technique": c["technique"],
        })
    na = [{"property_id": pid, "reason": NOT_YET.get(pid, "check not built yet in this round (planned per DESIGN.md section 3); not claimed until its TLA+ spec and conformance harness exist")}
          for pid in ALL if pid not in CHECKS]
    manifest = {
        "version": 1,
        "setup_cmd": "sh run/setup.sh",
        "hooks": {
            "guard": "cargo feature `verif` (#[cfg(feature = \"verif\")])",
            "enable": "harness depends on scrut with features=[\"verif\"]; binary: cargo build --offline --features verif --bin scrut --manifest-path /repo/Cargo.toml --target-dir /verif/harness/target",
            "baseline_off_cmd": "cd /repo && cargo nextest run --workspace --no-fail-fast --tool-config-file pb:/w/lib/nextest.toml --profile pb --test-threads 8 --offline || cargo test --workspace --no-fail-fast --offline",
            "source_commits": [l.split()[0] for l in hooks_commits],
            "add_only": True,
        },
        "engines": [
            {"name": "DiffAlgo", "path": "specs/DiffAlgo.tla", "serves_properties": ["C01", "C02", "C03"],
             "kind_free_text": "TLA+ spec of DiffTool::diff with reference language semantics; MC_DiffAlgo (TLC MC/GEN), DiffTrace (result-level trace validation), DiffStepTrace (step-level trace validation of hook events)"},
            {"name": "Rules", "path": "specs/Rules.tla", "serves_properties": ["C04"],
             "kind_free_text": "TLA+ reference semantics of the expectation kinds; MC_Rules (enumeration + sanity), RulesTrace (re-evaluation of implementation answers)"},
        ],
        "checks": checks,
        "not_applicable": na,
        "notes": "All checks: python3 run/check.py <id> --tier quick|thorough; exit 0 held / 1 VIOLATION / 2 tool error. Known findings: known_findings.json. See DESIGN.md.",
    }
    with open(os.path.join(VERIF, "MANIFEST.json"), "w") as f:
        json.dump(manifest, f, indent=1)
        f.write("\n")


if __name__ == "__main__":
    main()

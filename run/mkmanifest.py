#!/usr/bin/env python3
"""Regenerates /verif/MANIFEST.json from the table below (single source of truth for the interface)."""
import json
import os
import subprocess

VERIF = os.path.dirname(os.path.dirname(os.path.abspath(__file__)))

CHECKS = {
    "C01": dict(
        engine="DiffAlgo",
        text="TLC proves on the TLA+ transcription of DiffTool::diff (specs/DiffAlgo.tla) that a result without differences implies membership in the language e1{q1}..en{qn} for EVERY match matrix x quantifier vector up to 3x3 (thorough: 4x3, 3x4, 2x5); every one of those abstract inputs is then concretised into real expectations/outputs, run through the real DiffTool::diff and TestCase::validate, and TLC evaluates the same predicate (Sound / InLang) on each implementation record, plus on random records up to 8x14. Step events from hooks in diff.rs are validated against the spec's actions.",
        note="Trusted: TLC; the matrix abstraction (exact: diff() consults rules only through matches(); the realised matrix is recomputed per record); beyond 3x3 only sampled. Rule engines are not part of this property (C04).",
        technique="TLA+ spec of the matcher, TLC exhaustive check + TLC-generated vectors replayed into DiffTool::diff + TLC trace validation of recorded results and step events",
        ref="3 (C01-C03), Appendix A.1"),
    "C02": dict(
        engine="DiffAlgo",
        text="Same pipeline as C01 with the Conserve predicate: TLC checks on the model, and then on every implementation record, that the result mentions lines 1..m exactly once in order, every Matched entry really matches and is single-line unless multiline, every non-optional expectation is mentioned exactly once and optional ones at most once in order, has_differences agrees with the entries, the line bytes concatenate to the output, and the call returned (panic / hang are caught and count as violations). Termination measure checked as an action property.",
        note="Trusted: TLC; concretisation self-checks. Very long outputs are covered by the C13/C19 checks, not here.",
        technique="TLA+ spec of the matcher, TLC exhaustive check + replay into DiffTool::diff + TLC trace validation",
        ref="3 (C01-C03)"),
    "C03": dict(
        engine="DiffAlgo",
        text="Same pipeline as C01 with the Complete predicate: whenever the one-line-lookahead determinism condition Det holds for (expectations, output) and the output is in the language, the real code must report no differences and validate() must return Ok on stdout and stderr selection. Det/InLang are evaluated by TLC on each implementation record from the realised match matrix.",
        note="Trusted: TLC; Det is exactly the follow-set condition of the property statement. Vacuity is controlled: the number of deterministic accepted records is reported and must be > 0.",
        technique="TLA+ spec of the matcher, TLC exhaustive check + replay into DiffTool::diff + TLC trace validation",
        ref="3 (C01-C03)"),
}

CHECKS["C04"] = dict(
    engine="Rules",
    text="The documented meaning of each expectation kind (equal, no-eol, escaped with its escape sequences, glob with ?/*, Cram glob with escapes, escaped glob, regex as whole-line match over an AST with alternation/concatenation/repetition/classes) is written as TLA+ operators (specs/Rules.tla). TLC enumerates every (kind, expression) in the bound together with every candidate line and checks sanity theorems of the reference; the harness renders each expression as a user writes it, parses it through ExpectationMaker with the default and the Cram-compatible registry and asks the real rule for every candidate line; TLC then recomputes the documented verdict for each (expression, line) answer of the implementation and any disagreement (either direction of the iff) is a violation.",
    note="Trusted: TLC; my transcription of the documentation. The regex and wildmatch crates are observed only on the enumerated fragment (3-symbol alphabet incl. one multi-byte character, lines <= 3 characters, each LF-terminated line also with a kept CR before the LF). Malformed escaped expressions are not judged here.",
    technique="TLA+ reference semantics of the rule kinds, TLC-enumerated vectors replayed into the real rules, TLC re-evaluation of each recorded answer",
    ref="3 (C04)")

_E2E_NOTE = "Trusted: TLC; bash/sleep/kill; the materialisation of a scenario (commands built from printf/exit/kill/sleep; what each command does is fixed by construction). Only the enumerated scenario families are explored; quick runs a seeded sample of them (all single-test scenarios are always included), thorough runs thousands."
_E2E_TECH = "TLA+ spec of the scrut-test run (documents loop, executors, verdict, exit status), TLC model check + TLC-generated scenarios run with the real binary + TLC evaluation of the property predicate on each observed run"
CHECKS["C05"] = dict(engine="TestCommand", ref="3 (C05), Appendix C", note=_E2E_NOTE, technique=_E2E_TECH,
    text="specs/TestCommand.tla models `scrut test` (per-document executor loop incl. signal/unknown padding, validate(), accounting, exit status); TLC checks C05ok (success iff exit code equal to the expected one and configured stream accepted; wrong code reported as such regardless of output; no success for a command without exit code nor for test cases after it) on every scenario of the family (<= 3 test cases x 14 behaviour kinds incl. stderr/combined selection and SIGKILL, Markdown and Cram). Each selected scenario is materialised as a real document, run with the real binary (-r json, marker log of what ran), and TLC evaluates C05ok on the observed results.")
CHECKS["C14"] = dict(engine="TestCommand", ref="3 (C14), Appendix A.2", note=_E2E_NOTE + " Timing: durations 0 or 3 s against limits 1 or 6 s, 1.5 s slack, so scheduling noise cannot flip a verdict.", technique=_E2E_TECH,
    text="The model carries an integer clock, the document deadline and the PickLimit step (min of per-test timeout and remaining document time); TLC checks C14ok on all 117 combinations of slow-test position x per-test timeout {none,1,6} x front-matter total_timeout {none,0,1,6} x --timeout-seconds {none,1,6} (Markdown) and the Cram variants. ALL of them are run with the real binary (sleep 3) in the quick tier; TLC evaluates on each observed run: exceeded limit => timeout result + later ones skipped and not run + exit 50 + document stopped within limit+1.5 s + the timed-out command really ended (no late marker); inside all limits => never timeout.")
CHECKS["C15"] = dict(engine="TestCommand", ref="3 (C15)", note=_E2E_NOTE, technique=_E2E_TECH,
    text="Scenario family: skipping test case at position 0..3, skip code default 80 / document default 7 / inline 9 / decoy (exit 80 where the code is 7), expected exit code of the skipper none / equal / other, passing and failing neighbours, a second document before or after, Cram `exit 80` and `(exit 80)`, Markdown documents run with --cram-compat (the script executor takes ONE configuration: differing skip codes are an execution error, a uniform custom code must work), a detached test case before the skipping one. TLC checks C15ok on the model for all 1977 scenarios and on each observed run of the real binary: skipping document => every result skipped, run not failed by it, other documents unaffected; otherwise no skipped result.")
CHECKS["C20"] = dict(engine="TestCommand", ref="3 (C20)", note=_E2E_NOTE, technique=_E2E_TECH,
    text="Scenario family: 1-3 documents (Markdown and Cram mixed), shared prepend/append documents via -P/-A or front-matter, test cases that pass / fail on output / fail on code / detach / skip / die, faults (unreadable document, unparsable document, missing shell), shared documents together with a per-test timeout, a detached test case before a test case that cuts the document short (timeout, signal, skip). TLC checks C20ok on the model (10354 scenarios) and on each observed run: the marker log lists every command once in assembled order (prefix when a document was cut short), at most one result per test case and one for every non-detached one, exit status 1 / 50 / 0 as specified, and the pretty renderer's summary adds up and agrees with the JSON results.")

CHECKS["C06"] = dict(engine="MarkdownDoc", ref="3 (C06), Appendix A.3",
    text="specs/MarkdownDoc.tla gives a declarative reading MdRef of a document built from segments (prose lines incl. lines starting with one or two backticks and `---`, front-matter terminated or not, verbatim blocks with 3/4-backtick fences and nested shorter fences, scrut blocks with config, comments, continuations, `$`/`>`/`#`-looking output, `[n]`, empty and command-less bodies, unterminated blocks) and a line-by-line tokenizer machine shaped like src/parsers/markdown.rs with explicit end-of-input actions; TLC checks that the machine yields exactly MdRef on every document in the bound (6891 quick) and emits each document with its reference. The real MarkdownParser parses every document in 4 renderings (LF/CRLF x final newline or not); TLC compares each result with the reference: no panic; Ok => exactly the referenced tests (command, expectation lines, exit code, inline config, 1-based `$` line, title) and never Ok where only an error is acceptable.",
    note="Trusted: TLC; the segment renderer. Ambiguous Markdown is excluded by construction. Err is always acceptable (statement), unexpected Errs are reported as DRIFT. Titles compared only where statement and long-standing behaviour agree.",
    technique="TLA+ reference reading + tokenizer machine, TLC equivalence check on all documents in the bound, documents replayed into MarkdownParser::parse, TLC comparison of every result")

CHECKS["C07"] = dict(engine="CramDoc", ref="3 (C07)",
    text="specs/CramDoc.tla gives a positional reference reading CramRef (one test per two-space-indented `$` line, `>` continuations directly after it, following indented lines with exactly two spaces removed as expectations, `[n]` as exit code, nearest preceding unindented non-comment line as title, column-0 `#` lines skipped) and the line machine of src/parsers/cram.rs with the LineParser state inlined; TLC checks machine = reference for ALL line sequences of length <= 4 (thorough 5) over 13 line kinds (30941 documents) and emits them. The real CramParser parses each document (LF, CRLF, no final newline); TLC compares every result with the reference incl. the Cram defaults (combined output, CRLF kept) of every test.",
    note="Trusted: TLC. Documents containing indented lines that belong to no command are judged only for 'never crashes' (the statement is silent about them). Titles are compared only for the first command after an unindented line.",
    technique="TLA+ positional reference + line machine, TLC equivalence over all short line sequences, replay into CramParser::parse, TLC comparison of every result")

CHECKS["C08"] = dict(engine="ExpectationGrammar", ref="3 (C08)",
    text="specs/ExpectationGrammar.tla states the documented grammar at token level (ParseRef: only a final ` (<kind><quantifier>)` group with kind and/or quantifier is the modifier, everything before it is the expression verbatim, anything else is `equal` on the whole line; a parse error is acceptable only for an explicitly marked regex / escaped expression that can be malformed). TLC enumerates 21315 token lines (prefix of <= 2 tokens incl. backslash, `[`, `*`, parentheses, TAB + up to two trailing groups from a catalogue of all well-formed shapes over every alias and quantifier and 15 near-miss shapes) and checks sanity theorems of the reference. Each line is rendered (several spellings incl. non-ASCII words), parsed by the real ExpectationMaker, rendered canonically under both escapers, parsed again and compared on 12 candidate lines. TLC recomputes ParseRef for every record and judges parse result (class, kind, quantifier, expression) and the round trip (same quantifier, same matching).",
    note="Trusted: TLC. Token spellings are a sample. Known findings (listed in known_findings.json, printed as KNOWN-FINDING): TAB/NBSP separator accepted as modifier separator; canonical rendering of equal expressions ending in modifier-like text; non-equal kinds with escaper-rewritten characters; escaped kind with literal backslash.",
    technique="TLA+ token-level grammar, TLC-enumerated lines replayed into ExpectationMaker::parse + canonical round trip, TLC re-evaluation of the documented reading on every record")
CHECKS["C11"] = dict(engine="Escape", ref="3 (C11)",
    text="specs/Escape.tla models the escaper and the reader of escaped text at byte level over 13 byte classes (printable incl. the letters that follow a backslash in escape sequences, backslash, TAB, named / other control, multi-byte printable, multi-byte category-other, invalid UTF-8): TLC checks for every class sequence up to length 3 (thorough 4) and both modes that the intended encoding is lossless (Decode(Encode(s)) = s) and printable. Every sequence is then concretised (3-6 representatives per class), pushed through the real Escaper::escaped_expectation, read back through ExpectationMaker::parse as the kind it announces and tested on the original line and on ~8 neighbouring lines per character; plus a sweep over all 256 single bytes (alone and after a backslash) and Unicode scalars (all below U+3000, every 97th above; thorough: all). TLC judges every record (printable for the mode, readable, matches original, matches no neighbour) and compares the text with the intended encoding (drift).",
    note="Trusted: TLC; unicode_categories for the printable judgement in unicode mode; neighbours are a sample of the lines at edit distance 1.",
    technique="TLA+ byte-level spec of escaper + reader, TLC check of losslessness/printability, class sequences and byte/scalar sweeps replayed into the real escaper and parser, TLC judgement of every record")

CHECKS["C09"] = dict(engine="Generate", ref="3 (C09)",
    text="specs/Generate.tla describes an output as a sequence of <= 2 (thorough 3) line classes out of 23 (plain, blank, whitespace-only, leading / trailing blanks, lines that look like `[1]`, `$ x`, `> x`, fences, fences indented by 1-3 blanks, lines ending in ` (glob)` / ` (?)` / ` ()` / ` (escaped)` / ` (no-eol)`, backslashes, control bytes, both, UTF-8, category-other characters, invalid UTF-8, `# x`) x final newline x exit code {0,3} x format {md,cram} x escaper {ascii,unicode} x path {create, update after changed output, update after changed exit code, `update --convert` from the other format}; TLC enumerates all 35360 cases. Each case is concretised and pushed through the real generator (Markdown/Cram TestCaseGenerator or UpdateGenerator), parsed back with the matching parser and validated against the same output; TLC judges each record with C09ok (generated, parsed, exactly one test, same command, passes) and names the case from the class table. Failing cases are attributed to root causes (a class whose single-line output already fails). A sample of create cases and of convert cases also runs end to end (`scrut create` / `scrut update --convert` with a command that prints exactly those bytes, then `scrut test` on the written file).",
    note="Trusted: TLC; one concrete representative per class and record. 13 syntax-collision classes are known findings (an output line that looks like document syntax is written verbatim), printed as KNOWN-FINDING.",
    technique="TLA+ enumeration of output shapes with a class table, replay through generate;parse;validate of the real code, TLC judgement of every record")

CHECKS["C10"] = dict(engine="MarkdownDoc", ref="3 (C10)",
    text="The documents enumerated by specs/MarkdownDoc.tla (8245 quick, incl. front-matter, verbatim blocks, nested fences, command-less and unterminated blocks) are combined with every assignment of outcome classes {pass, changed output, changed exit code} to their tests (<= 2 tests: all 3^t, more: sampled) and pushed through the real MarkdownUpdateGenerator. specs/UpdateProps.tla states C10 over the original's segment structure and an observation of the updated document (a scanner that only knows the original's outside chunks decomposes it into chunk0 block1 chunk1 ...): everything outside scrut blocks identical and in order, same number and order of blocks, language / inline config / comment lines kept, lines of passing tests and of command-less blocks kept exactly, second update changes nothing, updated document parses to the same commands and passes on the outputs it was updated with. TLC recomputes the chunks from lines + segments (binding the scanner's input) and judges every record. Test blocks exist in two registered languages (scrut, sh), with expectations ending in blanks and indented fence-like lines. A sample runs end to end (`scrut update --replace --assume-yes --markdown-languages scrut sh`: file = generator result, second update changes nothing, `scrut test` passes). specs/UpdateCommand.tla models the command at FILE level (skip / abort / unchanged / ask / write per document; target = document, `.new` file or converted file; --replace, --assume-yes, --convert; stale `.new` files): TLC checks NoSilentOverwrite, StaleKept, PassingUntouched, FailingGetsUpdated, Accounted on all 8424 scenarios (1-2 documents), and every 1-document scenario plus a sample of 2-document ones is run with the real binary; TLC judges the files, summary counts and exit status afterwards and that every written file passes `scrut test`.",
    note="Trusted: TLC; the scanner (30 lines, checked against the spec's chunk computation on every record); line terminators normalised. Documents rejected or read differently by the parser are C06's subject.",
    technique="TLA+ document model + update property predicates, enumerated documents x outcome assignments replayed into MarkdownUpdateGenerator, TLC judgement of every record")

CHECKS["C16"] = dict(engine="ConfigLayers", ref="3 (C16)",
    text="specs/ConfigLayers.tla models the four layers (cli > test case > document defaults > format) over 7 scalar keys and 2 environment variables with values {unset, A, B}, the binary step Merge and the fold in the order of the three call sites (parser, test command, executor); TLC proves on 6755 assignments (focus key x all 3^4 layer assignments x interfering key; both environment variables over three layers) that the effective value is that of the highest layer that sets it, that Merge is associative, that an empty layer is neutral and that prepend/append accumulate in order. Each assignment is concretised and pushed through the real with_defaults_from / with_overrides_from in the call order of markdown.rs, test.rs and stateful_executor.rs (plus DocumentConfig layering with lists, shell, total_timeout); 123 assignments whose effect is observable (environment variables, output_stream, keep_crlf) are also materialised as documents + flags and run with the real binary. TLC judges every record with PrecedenceOK on the observed effective configuration.",
    note="Trusted: TLC; the harness reproduces the three call sites by hand (a change of the call order inside scrut is only seen by the end-to-end part).",
    technique="TLA+ layering model (Merge/Effective), TLC proof of precedence/associativity/identity on all assignments, replay into the real merge functions and the real binary, TLC judgement")

CHECKS["C17"] = dict(engine="ConfigRoundTrip", ref="3 (C17), 8",
    text="specs/ConfigRoundTrip.tla enumerates configurations by value class: one focus key over all its classes (durations 1ms .. 400 days incl. compound ones, booleans, streams, codes, wait with plain / spaced / YAML-significant paths) against two backgrounds (everything unset / everything set), and one or two environment variables over 16 value classes (quotes, backslashes, colon-space, braces, commas, #, leading / trailing blanks, non-ASCII, things that look like booleans / numbers / null, %@&*), each in both forms (one-line `{...}` written through the real MarkdownTestCaseGenerator, YAML front-matter written through the Serialize implementation incl. shell / prepend / append / total_timeout). Every rendering is parsed back with the real Markdown parser; TLC judges key-wise equality of the canonical text of every key (C17ok) on every record.",
    note="This is the property where TLA+ contributes least: TLC is the enumerator and the holder of the equality oracle; serde_yaml and humantime are only observed. One concrete value per class.",
    technique="TLA+ enumeration of configurations by value class, render + parse with the real code, TLC judgement of key-wise equality")

CHECKS["C19"] = dict(engine="Render", ref="3 (C19)",
    text="specs/Render.tla composes the matcher of specs/DiffAlgo.tla with the hunk assembler of the diff renderer (unmatched_start / unexpected_start / flush, one action per branch) and TLC checks that every unmatched expectation and every unexpected line of every result the matcher can produce (3x2 quick: 5039 inputs, 78 distinct shapes; 3x3 thorough) appears in exactly one hunk, in order, and that a result without differences yields no hunk. Every input is concretised through the real rules in two of 8 text families (ASCII, multi-byte, wide CJK, trailing ASCII blanks, trailing Unicode whitespace, control bytes, 10 000-character lines, empty lines), validated by the real code into an Outcome, combined with a second outcome of another result kind (success, invalid exit code, internal error, timeout, skipped, a second failing test with the same location and line number as it happens with prepended documents) and rendered by all five renderers (pretty colour / mono with 0, 1, 5 surrounding lines and relative / absolute line numbers up to 10^5, diff, json, yaml; Markdown / Cram, both escapers, with / without location). TLC judges every record: a rendering is returned, human renderings contain every unmatched expectation and unexpected line (diff: exactly the expected -/+ lines in order) and no section for a passed test, json / yaml are well-formed with one entry per outcome and its result kind.",
    note="Trusted: TLC; 'shown' is a substring / line-sequence comparison done by the harness. Valid UTF-8 text only.",
    technique="TLA+ spec of the hunk assembler composed with the matcher spec, TLC check on all reachable diff shapes, shapes replayed through the five real renderers, TLC judgement of every record")

CHECKS["C12"] = dict(engine="ShellCarrier", ref="3 (C12)",
    text="specs/ShellCarrier.tla models shell state (two variables with kind scalar / indexed / associative, export flag and 9 value classes incl. spaces, quotes, newline, non-ASCII, glob characters, `$`; a function, an alias, 4 `set -o` options, 3 `shopt` options, working directory and directory stack) with 14 kinds of state-changing operations (incl. a variable given through the test case's `environment` configuration), ONE reference session, and the carrier as one process per test case (restore state file, run operations one at a time, probe, dump in the EXIT trap unless detached). TLC checks for all histories of 2 test cases x 1 operation (152241 states) that every probe equals the reference session and that detached test cases leave nothing behind, then generates histories (all two-step ones: sampled in quick; 120 simulated histories of 4 test cases x 2 operations, thorough 2500; family `interplay`: 3 test cases over the operations whose restore order / option context matters; family `persist`: every option on x one representative operation x look, complete in both tiers). Each history is concretised into bash snippets and run through the real StatefulExecutor + BashRunner (one bash process per test case) with a probe that prints the complete modelled state; TLC compares every probe with the reference state. The same snippets are run in ONE real bash session: if that disagrees with the spec the check exits 2 (my model of bash is wrong), never 1.",
    note="Trusted: TLC; /bin/bash. Readonly variables and user EXIT traps are outside the state classes. State classes are sampled by 2 names / 9 value classes.",
    technique="TLA+ spec of single-session state vs per-process carrier, TLC check + TLC-generated histories run through the real executor and through one real bash session, TLC comparison of every probe")

CHECKS["C13"] = dict(engine="Capture", ref="3 (C13)",
    text="specs/Capture.tla defines the documented recorded stream Recorded(payload, keep_crlf, strip_ansi) over payload tokens (ordinary byte, CR, LF, ANSI sequence, NUL, non-UTF-8 byte, the literal text of every template placeholder, scrut's internal divider prefix and a complete fake divider) and three (A) machines: the CR LF replacement of newline.rs, the template substitution of bash_runner.rs (expression inserted last) and the divider protocol of the single-script executor (emit / split with unterminated last lines); TLC checks algorithm = reference, 'expression arrives verbatim' and correct splitting on all 3922 cases and enumerates them: every CR/LF/byte sequence up to length 4 (thorough 6) under all 9 keep_crlf x strip_ansi settings, special texts alone and embedded, both streams with every output_stream setting and exit codes {0,1,7,255}, two test cases with an unterminated first payload, an expression ending in a backslash, here-documents whose text starts with the continuation marker read from a real document by the real parser - each for both executors. Every case is run through the real StatefulExecutor/BashRunner or BashScriptExecutor with printf-built commands (special texts as single-quoted literals, so a rewritten expression changes the bytes); recorded stdout, stderr and exit codes are mapped back to tokens and compared by TLC. Large outputs (100k lines, thorough 2M, CR LF terminated and on both streams at once) run in their own process.",
    note="Trusted: TLC; bash/printf/yes/head. Known findings: strip_ansi_escaping removes non-ANSI control bytes (third-party stripper); a Cram payload containing the divider prefix aborts execution.",
    technique="TLA+ spec of recorded stream + CR LF / substitution / divider machines, TLC check and enumeration, commands run through both real executors, TLC comparison of recorded bytes")

CHECKS["C18"] = dict(engine="WorkDirs", ref="3 (C18)",
    text="specs/WorkDirs.tla models the directory lifecycle of scrut processes (per document: NewEnv creates execution.* + __tmp, or temp.* inside --work-directory, or kept directories; InitTestFile creates the uniquely named working directory; Execute; DropEnv) with several processes interleaved by TLC, and checks Clean (at exit nothing the process created remains unless --keep-temporary-directories; W remains) and Separate (no two documents of any process share a working directory in default mode). TLC enumerates 1008 per-process scenarios (mode x outcome classes pass / fail / timeout / skip / timeout with SIGTERM ignored / timeout with closed streams of 1-2 documents x identical file names x test cases that leave / unset / overwrite the documented variables, or a run with -P / -A documents whose test cases must see each document's environment too). Experiments of 1-3 real scrut processes started at the same time under one private temporary root run these scenarios: every test case logs its working directory and the documented variables, the driver snapshots the temporary root after each exit and again after a grace period longer than the longest command. TLC judges every experiment: nothing left (immediately and later), W kept and clean, one working directory per document and none shared, TESTDIR / TESTFILE / TESTSHELL / TMPDIR / LANG / LANGUAGE / LC_ALL / TZ / COLUMNS / CDPATH / GREP_OPTIONS / SCRUT_TEST=<path>:<line of its own $ line> as documented for every test case, also after a previous test case unset or overwrote them.",
    note="Trusted: TLC; the kernel and tempfile crate for real file-system behaviour (only sampled). Parse errors and a missing shell create no directories at all (covered by C20). Hook H4 was not needed: everything is observable from outside.",
    technique="TLA+ spec of the directory lifecycle with interleaved processes, TLC check + enumerated scenarios run as concurrent real processes, TLC judgement of directory snapshots and per-test environment logs")

NOT_YET = {
}

ALL = [f"C{i:02d}" for i in range(1, 21)]


def main():
    hooks_commits = subprocess.run(["git", "-C", "/repo", "log", "--format=%H %s", "--grep=^verif hooks"],
                                   stdout=subprocess.PIPE, text=True).stdout.strip().splitlines()
    checks = []
    for pid in ALL:
        if pid not in CHECKS:
            continue
        c = CHECKS[pid]
        checks.append({
            "property_id": pid,
            "quick_cmd": f"python3 run/check.py {pid} --tier quick",
            "thorough_cmd": f"python3 run/check.py {pid} --tier thorough",
            "evidence_file": f"/verif/evidence/{pid}.json",
            "replay_cmd_template": f"python3 run/check.py {pid} --replay {{path}}",
            "engine": c["engine"],
            "level_claimed": {"category": c.get("category", "model_checking"), "text": c["text"],
                              "design_ref": "DESIGN.md section " + c["ref"]},
            "level_note": c["note"],
            "technique": c["technique"],
        })
    na = [{"property_id": pid, "reason": NOT_YET.get(pid, "check not built yet in this round (planned per DESIGN.md section 3); not claimed until its TLA+ spec and conformance harness exist")}
          for pid in ALL if pid not in CHECKS]
    manifest = {
        "version": 1,
        "setup_cmd": "sh run/setup.sh",
        "hooks": {
            "guard": "cargo feature `verif` (#[cfg(feature = \"verif\")])",
            "enable": "harness depends on scrut with features=[\"verif\"]; binary: cargo build --offline --features verif --bin scrut --manifest-path /repo/Cargo.toml --target-dir /verif/harness/target",
            "baseline_off_cmd": "cd /repo && cargo nextest run --workspace --no-fail-fast --tool-config-file pb:/w/lib/nextest.toml --profile pb --test-threads 8 --offline || cargo test --workspace --no-fail-fast --offline",
            "source_commits": [l.split()[0] for l in hooks_commits],
            "add_only": True,
        },
        "engines": [
            {"name": "DiffAlgo", "path": "specs/DiffAlgo.tla", "serves_properties": ["C01", "C02", "C03"],
             "kind_free_text": "TLA+ spec of DiffTool::diff with reference language semantics; MC_DiffAlgo (TLC MC/GEN), DiffTrace (result-level trace validation), DiffStepTrace (step-level trace validation of hook events)"},
            {"name": "TestCommand", "path": "specs/TestCommand.tla", "serves_properties": ["C05", "C14", "C15", "C20"],
             "kind_free_text": "TLA+ spec of `scrut test` end to end: TestCommandProps (scenario structure + property predicates), TestCommand (the machine), MC_TestCommand (scenario families, TLC MC/GEN), TestCommandTrace (TLC evaluation of observed runs); run/scenario.py materialises and runs scenarios with the real binary"},
            {"name": "MarkdownDoc", "path": "specs/MarkdownDoc.tla", "serves_properties": ["C06", "C10"],
             "kind_free_text": "TLA+ spec of Markdown test documents: reference reading MdRef, tokenizer machine MdTok, MC_MarkdownDoc (equivalence + GEN), MarkdownTrace (comparison of real parses), UpdateProps/UpdateTrace (C10 predicates over updated documents)"},
            {"name": "CramDoc", "path": "specs/CramDoc.tla", "serves_properties": ["C07"],
             "kind_free_text": "TLA+ spec of Cram documents: positional reference CramRef, line machine CramTok, MC_CramDoc (equivalence + GEN), CramTrace (comparison of real parses)"},
            {"name": "ExpectationGrammar", "path": "specs/ExpectationGrammar.tla", "serves_properties": ["C08"], "kind_free_text": "token-level grammar of expectation lines (ParseRef), MC_ExpectationGrammar (GEN + sanity), ExpectationTrace (judgement of real parses and round trips)"},
            {"name": "Escape", "path": "specs/Escape.tla", "serves_properties": ["C11"], "kind_free_text": "byte-level model of escaper and escaped-text reader, MC_Escape (lossless/printable + GEN), EscapeTrace (judgement of real escaper output)"},
            {"name": "UpdateCommand", "path": "specs/UpdateCommand.tla", "serves_properties": ["C10", "C09"], "kind_free_text": "`scrut update` at file level: per-document skip / abort / unchanged / ask / write machine with --replace, --assume-yes, --convert and stale .new files; MC_UpdateCommand (MC + enumeration), UpdateCommandTrace (judgement of runs of the real binary)"},
            {"name": "Generate", "path": "specs/Generate.tla", "serves_properties": ["C09"], "kind_free_text": "line-class model of command output and its collisions with document syntax; MC_Generate (enumeration), GenerateTrace (judgement of real generate;parse;validate runs)"},
            {"name": "ConfigLayers", "path": "specs/ConfigLayers.tla", "serves_properties": ["C16"], "kind_free_text": "layering model of configuration (Merge, Effective, PrecedenceOK), MC_ConfigLayers, ConfigTrace"},
            {"name": "ConfigRoundTrip", "path": "specs/ConfigRoundTrip.tla", "serves_properties": ["C17"], "kind_free_text": "value-class enumeration of configurations and the round-trip predicate; MC_ConfigRoundTrip, ConfigRoundTripTrace"},
            {"name": "Render", "path": "specs/Render.tla", "serves_properties": ["C19"], "kind_free_text": "hunk assembler of the diff renderer composed with DiffAlgo; MC_Render (ShowsAll + GEN), RenderTrace (judgement of real renderings)"},
            {"name": "ShellCarrier", "path": "specs/ShellCarrier.tla", "serves_properties": ["C12"], "kind_free_text": "shell state, operations, reference session and per-process carrier; MC_ShellCarrier (MC + exhaustive/simulated GEN), ShellTrace"},
            {"name": "Capture", "path": "specs/Capture.tla", "serves_properties": ["C13"], "kind_free_text": "recorded-stream reference, CR LF algorithm, template substitution and divider protocol machines; MC_Capture, CaptureTrace"},
            {"name": "WorkDirs", "path": "specs/WorkDirs.tla", "serves_properties": ["C18"], "kind_free_text": "directory lifecycle of interleaved scrut processes (Clean, Separate) and the observation predicate C18ok; MC_WorkDirs, WorkDirsTrace"},
            {"name": "Rules", "path": "specs/Rules.tla", "serves_properties": ["C04"],
             "kind_free_text": "TLA+ reference semantics of the expectation kinds; MC_Rules (enumeration + sanity), RulesTrace (re-evaluation of implementation answers)"},
        ],
        "checks": checks,
        "not_applicable": na,
        "notes": "All checks: python3 run/check.py <id> --tier quick|thorough; exit 0 held / 1 VIOLATION / 2 tool error. Known findings: known_findings.json. See DESIGN.md.",
    }
    with open(os.path.join(VERIF, "MANIFEST.json"), "w") as f:
        json.dump(manifest, f, indent=1)
        f.write("\n")


if __name__ == "__main__":
    main()

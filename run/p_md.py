"""C06 — MarkdownDoc: TLC checks the tokenizer machine against the declarative reading on every document in
the bound and emits each document with its reference reading; the real MarkdownParser parses each document
(LF / CRLF, with / without final newline); TLC compares every result with the reference."""
import json
import os
import time

from lib import *

ACTIONS = ["TopFrontMatter", "TopLine", "OpenVerbatim", "OpenTest", "FmLine", "FmClose", "VerbLine", "VerbClose", "Comment",
           "StartCode", "CodeLine", "EndTest", "EofInFrontMatter", "EofInVerbatim", "Eof"]
WHAT = "Markdown parsing crashed, or returned tests that are not exactly the scrut blocks written in the document"


def _cfg(work, name, tier, body):
    path = os.path.join(work, name)
    with open(path, "w") as f:
        f.write(f'SPECIFICATION Spec\nCONSTANTS\n  Tier = "{tier}"\n{body}\nCHECK_DEADLOCK FALSE\n')
    return path


def classify(r):
    o, ref = r["obs"], r["ref"]
    has = lambda t: any(t in l for l in r["lines"])
    if o["result"] == "panic":
        return "panic:" + o["msg"][:40]
    if o["result"] == "err":
        return "well-formed-document-rejected:" + o["msg"][:50]
    feats = []
    if has("``x`` rest"):
        feats.append("two-backtick-prose-line")
    if has("@U@"):
        feats.append("multibyte-info-string")
    if ref["must_err"]:
        return "ok-although-only-error-acceptable:" + "+".join(feats or ["unterminated-front-matter"])
    if r.get("fm") != "any" and o.get("fm") != (r.get("fm") == "yes"):
        return "front-matter:" + ("read-although-none-written" if o.get("fm") else "not-read") + ":first-line=" + repr(r["lines"][0][:6])
    if len(o["tests"]) != len(ref["tests"]):
        return f"test-count:{'+'.join(feats) or 'plain'}:lastline={r['lines'][-1][:12]}"
    d = sorted({f for a, b in zip(o["tests"], ref["tests"]) for f in ("cmd", "exps", "code", "cfg", "line") if a[f] != b[f]})
    return "field:" + (",".join(d) or "title") + ":" + "+".join(feats or ["plain"]) + f":crlf={int(r['crlf'])}"


def run(prop, tier, replay=None):
    t0 = time.time()
    work = workdir(f"{prop}-{tier}")
    build_s = build()
    V = Verdicts(prop)
    cov = {}
    if replay:
        with open(replay) as f:
            body = json.load(f)
        vectors = [body["replay"]["vector"]]
        states = trans = 0
    else:
        cfg = _cfg(work, "MC.cfg", tier, "INVARIANTS TypeOK Agrees Emit")
        res = tlc("MC_MarkdownDoc", cfg, work, workers=min(NCPU, 12), coverage=True, timeout=3000,
                  line_filter=lambda l: l.startswith('<<"REPLAY"') or l.startswith("Error") or "violated" in l)
        tlc_must_pass(res, "MarkdownDoc MC")
        require_actions(res, ACTIONS, "MarkdownDoc MC")
        states, trans = res.distinct, res.generated
        cov["mc_action_counts"] = {a: res.actions[a][1] for a in ACTIONS}
        vectors = [json.loads(t) for t in sorted({f[0] for f in res.printed("REPLAY")})]
        log(f"MC MarkdownDoc[{tier}]: {res.distinct} states, {len(vectors)} documents, tokenizer machine = reference reading on all of them, {res.wall:.0f}s")
    vpath, rpath = os.path.join(work, "vectors.ndjson"), os.path.join(work, "records.ndjson")
    write_ndjson(vpath, vectors)
    harness(["md-replay", "--vectors", vpath, "--records", rpath])
    records = read_ndjson(rpath)
    results, printed = tlc_validate_sharded("MarkdownTrace", "MarkdownTrace.cfg", records, work, shards=min(NCPU, 8),
                                            slim=lambda r: {k: r[k] for k in ("ev", "id", "ref", "fm", "obs")},
                                            tags=("VERDICT", "UNEXPECTED-ERR"))
    for r in results:
        tlc_must_pass(r, "MarkdownTrace VAL")
    validated = sum(r.distinct - 1 for r in results)
    if validated != len(records):
        raise ToolError(f"trace validation consumed {validated} of {len(records)} records")
    byid = {r["id"]: r for r in records}
    for _p, rid in printed["VERDICT"]:
        r = byid[rid]
        V.violation(classify(r), WHAT, {"vector": {"lines": r["lines"], "ref": r["ref"]}, "crlf": r["crlf"],
                                        "final_newline": r["final_newline"], "observed": r["obs"]})
    unexpected = len(printed["UNEXPECTED-ERR"])
    if unexpected:
        V.add_drift(f"{unexpected} well-formed documents were rejected with an error (allowed by the property), e.g. {byid[printed['UNEXPECTED-ERR'][0][0]]['obs']['msg'][:80]}")
    code, nviol, known = V.finish()
    if not replay:
        cov.update({
            "states": states, "transitions": trans, "traces_validated_against_impl": validated,
            "samples": [{"lines": r["lines"], "parsed": r["obs"]} for r in records if len(r["ref"]["tests"]) >= 2][:2],
            "evaluations": len(records),
            "distinct_nontrivial": len({json.dumps(r["lines"]) for r in records if len(r["ref"]["tests"]) >= 1}),
            "rule": "one evaluation = MarkdownParser::parse on one rendering (LF/CRLF x final newline or not) of one enumerated document; non-trivial = the reference reading contains at least one test; distinct by line sequence",
            "documents_rejected_although_wellformed": unexpected,
            "known_findings_seen": known, "build_s": round(build_s, 1), "exhaustive": True,
            "bounds": f"all documents of <= 2 segments over 50 segment kinds (+ optional front-matter, terminated or not), 3 segments over {'an 11-kind core' if tier == 'quick' else 'all kinds'}",
        })
        write_evidence(prop, tier, "model_checking", cov,
                       ["TLC; ambiguous Markdown (a 3-backtick block containing a line that starts with 3 backticks, `---` before any content) is excluded by construction",
                        "titles are only compared where statement and long-standing behaviour agree (see DESIGN.md)",
                        "an Err result is always acceptable for C06 (statement: 'either fails with an error or ...')"],
                       time.time() - t0, nviol)
    log(f"{prop}: {validated} parses validated by TLC, {nviol} violation(s), {time.time()-t0:.0f}s")
    return code

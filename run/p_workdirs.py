"""C18 — WorkDirs: TLC checks the directory lifecycle for interleaved processes and enumerates per-process scenarios
(mode x outcome classes of 1-2 documents x identical file names x what the test cases do to the documented variables);
experiments of 1-3 real scrut processes started at the same time run under a private temporary root; TLC judges."""
import concurrent.futures
import json
import os
import random
import shutil
import signal
import subprocess
import tempfile
import time

from lib import *

WHAT = "a directory scrut created remains after exit / documents share a working directory / a test case did not see the documented environment"
VARS = ["TESTDIR", "TESTFILE", "TESTSHELL", "SHELL", "TMPDIR", "LANG", "LANGUAGE", "LC_ALL", "TZ", "COLUMNS", "CDPATH", "GREP_OPTIONS", "SCRUT_TEST",
        "TMP", "TEMP", "CRAMTMP"]          # the last three: Cram compatibility only
SEP = "\x1f"


def log_cmd(tid):
    fields = ['"%s"' % tid, '"$PWD"'] + ['"${%s-UNSET}"' % v for v in VARS] + ['"$([ -d "${TMPDIR-/nonexistent}" ] && echo dir || echo nodir)"']
    return "printf '%s\\037' " + " ".join(fields) + ' >> "$RUN_LOG"; echo >> "$RUN_LOG"; touch here.txt'


def doc_text(pid, di, outcome, envkind, shell=None):
    ident = f"p{pid}d{di}"
    mod = ""
    if envkind == "unset":
        mod = "; unset " + " ".join(VARS)
    elif envkind == "shadow":
        # not exported: plain shell variables of the same names
        mod = "; unset " + " ".join(VARS) + "; TMPDIR=/nonexistent-dir TESTDIR=/x TESTFILE=y SCRUT_TEST=stale:0 LANG=de_DE.UTF-8 TZ=CET COLUMNS=7 CDPATH=/ GREP_OPTIONS=-i"
    elif envkind == "overwrite":
        mod = "; export TMPDIR=/nonexistent-dir TESTDIR=/x TESTFILE=y LANG=de_DE.UTF-8 TZ=CET COLUMNS=7 CDPATH=/ GREP_OPTIONS=-i"
    lines = [f"# {ident}t1", "", "```scrut", f"$ {log_cmd(ident + 't1')}{mod}", "```", "",
             f"# {ident}t2", "", "```scrut", f"$ {log_cmd(ident + 't2')}; echo out"] + (["different"] if outcome == "fail" else ["out"]) + ["```", ""]
    line_t1, line_t2 = 4, 10
    if shell:
        lines = ["---", f"shell: {shell}", "---", ""] + lines
        line_t1, line_t2 = line_t1 + 4, line_t2 + 4
    if outcome == "timeout":
        lines += [f"# {ident}t3", "", "```scrut {timeout: 1s}", "$ sleep 3; echo late >> \"$RUN_LOG\"", "```", ""]
    if outcome == "timeout_term":
        lines += [f"# {ident}t3", "", "```scrut {timeout: 1s}", "$ trap '' TERM; sleep 3; echo late >> \"$RUN_LOG\"", "```", ""]
    if outcome == "timeout_closed":
        lines += [f"# {ident}t3", "", "```scrut {timeout: 1s}", "$ exec >/dev/null 2>&1; sleep 3; echo late >> \"$RUN_LOG\"", "```", ""]
    if outcome == "skip":
        lines += [f"# {ident}t3", "", "```scrut", "$ exit 80", "```", ""]
    return "\n".join(lines), {ident + "t1": line_t1, ident + "t2": line_t2}


def experiment(exp_id, scs):
    root = tempfile.mkdtemp(prefix="scrut-verif-wd-", dir=os.environ.get("VERIF_SCRATCH", "/tmp"))
    tmproot = os.path.join(root, "tmproot")
    os.makedirs(tmproot)
    procs = []
    try:
        t_start = time.time()
        for k, sc in enumerate(scs):
            pid = k + 1
            pdir = os.path.join(root, f"p{pid}")
            paths, expect = [], {}
            for di, outcome in enumerate(sc["docs"]):
                if sc["samename"]:
                    ddir, name = os.path.join(pdir, "docs", "ab"[di]), "test.md"
                else:
                    ddir, name = os.path.join(pdir, "docs"), ["one.md", "two.md"][di]
                os.makedirs(ddir, exist_ok=True)
                shell = None
                if sc["env"] == "shells":
                    # a wrapper of its own per document (a script, so that its canonical path is itself)
                    shell = os.path.join(pdir, f"shell{di + 1}", "mybash")
                    os.makedirs(os.path.dirname(shell), exist_ok=True)
                    with open(shell, "w") as f:
                        f.write('#!/bin/bash\nexec /bin/bash "$@"\n')
                    os.chmod(shell, 0o755)
                text, lines = doc_text(pid, di + 1, outcome, sc["env"], shell)
                path = os.path.join(ddir, name)
                if sc["env"] == "symlink":
                    real_dir = os.path.join(pdir, f"real{di + 1}")
                    os.makedirs(real_dir, exist_ok=True)
                    with open(os.path.join(real_dir, "shared-target.md"), "w") as f:
                        f.write(text)
                    os.symlink(os.path.join(os.path.relpath(real_dir, ddir), "shared-target.md"), path)
                else:
                    with open(path, "w") as f:
                        f.write(text)
                paths.append(path)
                for tid, ln in lines.items():
                    expect[tid] = {"TESTDIR": os.path.realpath(ddir), "TESTFILE": name, "SCRUT_TEST": f"{path}:{ln}", "doc": di,
                                   "TESTSHELL": os.path.realpath(shell) if shell else None}
            argv = [SCRUT_BIN, "test", "--no-color", "-r", "json"] + paths
            shared_pairs = None
            if sc["env"] == "shared":
                sdir = os.path.join(pdir, "shared")
                os.makedirs(sdir, exist_ok=True)
                for role in ("pre", "post"):
                    with open(os.path.join(sdir, role + ".md"), "w") as f:
                        f.write(f"# shared {role}\n\n```scrut\n$ {log_cmd(f'p{pid}{role}')}\n```\n")
                shared_pairs = {(os.path.realpath(os.path.dirname(x)), os.path.basename(x)) for x in paths}
            wdir = None
            if sc["mode"] == "workdir":
                wdir = os.path.join(pdir, "W")
                os.makedirs(wdir)
                with open(os.path.join(wdir, "users-own-file"), "w") as f:
                    f.write("keep me")
                argv += ["--work-directory", wdir]
            elif sc["mode"] == "keep":
                argv += ["--keep-temporary-directories"]
            if sc["env"] == "compat":
                argv += ["--cram-compat"]
            if shared_pairs is not None:
                argv += ["-P", os.path.join(pdir, "shared", "pre.md"), "-A", os.path.join(pdir, "shared", "post.md")]
            # the caller's environment sets the documented variables to something else: scrut must neutralise that
            env = dict(os.environ, TMPDIR=tmproot, RUN_LOG=os.path.join(pdir, "run.log"), NO_COLOR="1",
                       CDPATH="/polluted-cdpath", GREP_OPTIONS="--polluted", LANG="de_DE.UTF-8", LANGUAGE="de", LC_ALL="de_DE.UTF-8",
                       TZ="Asia/Tokyo", COLUMNS="7", TESTDIR="/polluted", TESTFILE="polluted", TESTSHELL="/polluted", SHELL="/polluted-login-shell", SCRUT_TEST="polluted")
            env.pop("SCRUT_VERIF_TRACE", None)
            run_cwd = pdir
            if sc["env"] == "relpath":
                # the documents are named relative to a directory below theirs
                run_cwd = os.path.join(os.path.dirname(paths[0]), "below")
                os.makedirs(run_cwd, exist_ok=True)
                argv = [os.path.relpath(a, run_cwd) if a in paths else a for a in argv]
            if sc["env"] == "barename":
                # scrut runs in the directory of the first document, which is named by its bare file name
                run_cwd = os.path.dirname(paths[0])
                argv = [os.path.relpath(a, run_cwd) if a in paths else a for a in argv]
            p = subprocess.Popen(argv, cwd=run_cwd, env=env, stdout=subprocess.PIPE, stderr=subprocess.PIPE, start_new_session=True)
            procs.append({"p": p, "sc": sc, "pdir": pdir, "wdir": wdir, "expect": expect, "paths": paths, "shared_pairs": shared_pairs})
        # wait for each; snapshot of the shared temp root right after its exit
        pending = list(procs)
        while pending:
            for pr in list(pending):
                if pr["p"].poll() is not None:
                    pr["exit"] = pr["p"].returncode
                    pr["snap_exit"] = sorted(os.listdir(tmproot))
                    pr["out"], pr["err"] = pr["p"].communicate()
                    pending.remove(pr)
            if time.time() - t_start > 60:
                for pr in pending:
                    os.killpg(pr["p"].pid, signal.SIGKILL)
                    pr["exit"] = -999
                    pr["snap_exit"] = sorted(os.listdir(tmproot))
                    pr["out"], pr["err"] = pr["p"].communicate()
                pending = []
            time.sleep(0.02)
        # grace period: longer than the longest command of the experiment
        if any(o.startswith("timeout") for pr in procs for o in pr["sc"]["docs"]):
            time.sleep(max(0.0, 3.8 - (time.time() - t_start)))
        snap_later = sorted(os.listdir(tmproot))
        bash = os.path.realpath(shutil.which("bash") or "/bin/bash")
        obs = []
        details = []
        for pr in procs:
            sc = pr["sc"]
            logp = os.path.join(pr["pdir"], "run.log")
            entries = {}
            shared_entries = []
            if os.path.exists(logp):
                for line in open(logp, errors="replace").read().split("\n"):
                    f = line.split(SEP)
                    if len(f) >= 3 + len(VARS):
                        e_ = {"PWD": f[1], **{v: f[2 + j] for j, v in enumerate(VARS)}, "tmp_is_dir": f[2 + len(VARS)]}
                        if f[0].endswith(("pre", "post")):
                            shared_entries.append((f[0], e_))
                        else:
                            entries[f[0]] = e_
            # which top-level names under the temp root belong to this process
            mine = set()
            for e in entries.values():
                for pth in (e["PWD"], e["TMPDIR"]):
                    if pth.startswith(tmproot + "/"):
                        mine.add(pth[len(tmproot) + 1:].split("/")[0])
            unknown_ok = len(procs) == 1
            left_exit = [n for n in pr["snap_exit"] if n in mine or (unknown_ok)]
            left_later = [n for n in snap_later if n in mine or (unknown_ok)]
            ndocs = len(sc["docs"])
            wd_per_doc = []
            for di in range(ndocs):
                pw = {e["PWD"] for tid, e in entries.items() if pr["expect"].get(tid, {}).get("doc") == di}
                wd_per_doc.append("MISSING" if not pw else (pw.pop() if len(pw) == 1 else "MIXED"))
            bad_env, bad_fresh = [], []
            for tid, exp in pr["expect"].items():
                e = entries.get(tid)
                if e is None:
                    bad_env.append(f"{tid}:no-log")
                    continue
                want = {"TESTDIR": exp["TESTDIR"], "TESTFILE": exp["TESTFILE"], "TESTSHELL": exp.get("TESTSHELL") or bash, "LANG": "C", "LANGUAGE": "C", "LC_ALL": "C",
                        "TZ": "GMT", "COLUMNS": "80", "CDPATH": "", "GREP_OPTIONS": "", "SCRUT_TEST": exp["SCRUT_TEST"]}
                want["SHELL"] = want["TESTSHELL"]         # documented: "SHELL: Same as TESTSHELL"
                if sc["env"] == "compat":
                    del want["SCRUT_TEST"]          # documented for the per-test executor only
                    # Cram compatibility: TMP and TEMP equal TMPDIR; CRAMTMP is the directory above the working directory
                    # (or the given working directory)
                    want["TMP"] = e["TMPDIR"]
                    want["TEMP"] = e["TMPDIR"]
                    want["CRAMTMP"] = pr["wdir"] if sc["mode"] == "workdir" else os.path.dirname(e["PWD"])
                if sc["env"] in ("symlink", "relpath", "barename"):
                    del want["SCRUT_TEST"]          # (which spelling of the path it carries is not specified)
                wrong = sorted(v for v, w in want.items() if e[v] != w)
                if e["tmp_is_dir"] != "dir" or not e["TMPDIR"].startswith((tmproot if sc["mode"] != "workdir" else pr["wdir"]) + "/"):
                    wrong.append("TMPDIR")
                if wrong:
                    (bad_fresh if tid.endswith("t2") and sc["env"] != "plain" else bad_env).append(f"{tid}:{'+'.join(wrong)}")
            # test cases of -P / -A documents: once per document, each time with that document's environment
            if pr["shared_pairs"] is not None:
                docs_done = [o for o in sc["docs"]]
                if len(shared_entries) < 1:
                    bad_env.append("shared:no-log")
                for tid, e in shared_entries:
                    want = {"TESTSHELL": bash, "SHELL": bash, "LANG": "C", "LANGUAGE": "C", "LC_ALL": "C", "TZ": "GMT", "COLUMNS": "80", "CDPATH": "", "GREP_OPTIONS": ""}
                    wrong = sorted(v for v, w in want.items() if e[v] != w)
                    if (e["TESTDIR"], e["TESTFILE"]) not in pr["shared_pairs"]:
                        wrong.append("TESTDIR")
                    if e["tmp_is_dir"] != "dir" or not e["TMPDIR"].startswith((tmproot if sc["mode"] != "workdir" else pr["wdir"]) + "/"):
                        wrong.append("TMPDIR")
                    if wrong:
                        bad_env.append(f"{tid}:{'+'.join(wrong)}")
            w_kept = w_extra = False
            if pr["wdir"]:
                w_kept = os.path.isdir(pr["wdir"]) and os.path.exists(os.path.join(pr["wdir"], "users-own-file"))
                w_extra = any(n.startswith("temp.") for n in os.listdir(pr["wdir"])) if os.path.isdir(pr["wdir"]) else False
            obs.append({"left_at_exit": len(left_exit), "left_later": len(left_later), "wd_per_doc": wd_per_doc, "w_kept": w_kept, "w_extra": w_extra,
                        "env_ok": not bad_env, "fresh_ok": not bad_fresh, "exit": pr["exit"]})
            details.append({"left_at_exit": left_exit, "left_later": left_later, "bad_env": bad_env, "bad_fresh": bad_fresh,
                            "stderr": pr["err"].decode("utf-8", "replace")[-300:]})
        return {"ev": "Exp", "id": exp_id, "sc": scs, "obs": obs, "details": details}
    finally:
        for pr in procs:
            try:
                os.killpg(pr["p"].pid, signal.SIGKILL)
            except (ProcessLookupError, PermissionError):
                pass
        shutil.rmtree(root, ignore_errors=True)


def run(prop, tier, replay=None):
    t0 = time.time()
    work = workdir(f"{prop}-{tier}")
    build_s = build(need_scrut_bin=True, allow_broken_harness=True)      # (this check drives only the scrut binary)
    V = Verdicts(prop)
    s = seed()
    cov = {}
    if replay:
        with open(replay) as f:
            body = json.load(f)
        exps = [body["replay"]["experiment"]]
        states = trans = 0
    else:
        res = tlc("MC_WorkDirs", "MC_WorkDirs.cfg", work, workers=4, coverage=True, timeout=3000, line_filter=lambda l: l.startswith("Error") or "violated" in l)
        tlc_must_pass(res, "WorkDirs MC")
        require_actions(res, ["NewEnv", "InitTestFile", "Execute", "DropEnv"], "WorkDirs MC")
        states, trans = res.distinct, res.generated
        log(f"MC WorkDirs: 2 interleaved processes x 3 modes x 1-2 documents: {res.distinct} states; clean-up and separation hold, {res.wall:.0f}s")
        r2 = tlc("MC_WorkDirs", "GEN_WorkDirs.cfg", work, workers=4, timeout=3000, line_filter=lambda l: l.startswith('<<"REPLAY"') or l.startswith("Error"))
        tlc_must_pass(r2, "WorkDirs GEN")
        singles = [json.loads(t)["sc"][0] for t in sorted({f[0] for f in r2.printed("REPLAY")})]
        # the single-script executor (--cram-compat) refuses per-test timeouts: such documents do not run at all (C20's subject)
        singles = [x for x in singles if not (x["env"] == "compat" and any(o.startswith("timeout") for o in x["docs"]))]
        rnd = random.Random(s * 101 + 5)
        nsingle, nmulti = (100, 30) if tier == "quick" else (len(singles), 400)
        # always: every (mode, outcome) with one document and plain env; then a seeded sample of the rest
        base = [x for x in singles if not x["samename"] and ((len(x["docs"]) == 1 and x["env"] == "plain")
                                                             or (x["env"] in ("shared", "compat", "shadow") and x["docs"] in (["pass"], ["pass", "fail"], ["timeout"], ["skip"]))
                                                             or (x["env"] == "shells" and x["docs"] in (["pass", "pass"], ["pass", "fail"]))
                                                             or (x["env"] in ("symlink", "relpath", "barename") and x["docs"] in (["pass"], ["pass", "fail"])))]
        rest = [x for x in singles if x not in base]
        chosen = base + rnd.sample(rest, max(0, min(len(rest), nsingle - len(base))))
        exps = [[x] for x in chosen]
        for _ in range(nmulti):
            exps.append([rnd.choice(singles) for _ in range(rnd.choice([2, 2, 3]))])
        cov["scenarios_enumerated"] = len(singles)
        log(f"GEN: {len(singles)} per-process scenarios; running {len(chosen)} single-process and {nmulti} multi-process experiments")
    with concurrent.futures.ThreadPoolExecutor(max_workers=8) as ex:
        records = list(ex.map(lambda a: experiment(a[0] + 1, a[1]), enumerate(exps)))
    results, printed = tlc_validate_sharded("WorkDirsTrace", "WorkDirsTrace.cfg", records, work, shards=4,
                                            slim=lambda r: {k: r[k] for k in ("ev", "id", "sc", "obs")})
    for r in results:
        tlc_must_pass(r, "WorkDirsTrace VAL")
    validated = sum(r.distinct - 1 for r in results)
    if validated != len(records):
        raise ToolError(f"trace validation consumed {validated} of {len(records)} records")
    byid = {r["id"]: r for r in records}
    for _p, rid in printed["VERDICT"]:
        r = byid[rid]
        keys = set()
        for sc, o, dt in zip(r["sc"], r["obs"], r["details"]):
            if sc["mode"] != "keep" and (o["left_at_exit"] or o["left_later"]):
                keys.add(f"directory-remains:mode={sc['mode']}:outcomes={'+'.join(sorted(set(sc['docs'])))}:{'at-exit' if o['left_at_exit'] else 'reappears-later'}")
            if sc["mode"] == "keep" and not o["left_at_exit"]:
                keys.add("keep:nothing-kept")
            if sc["mode"] == "workdir" and (not o["w_kept"] or o["w_extra"]):
                keys.add("workdir:" + ("W-removed" if not o["w_kept"] else "temp-left-inside-W"))
            if "MIXED" in o["wd_per_doc"] or "MISSING" in o["wd_per_doc"]:
                keys.add("working-directory:" + ("differs-within-document" if "MIXED" in o["wd_per_doc"] else "no-log"))
            if not o["env_ok"]:
                keys.add("environment:" + "+".join(sorted({v for b in dt["bad_env"] for v in b.split(":")[1].split("+")})) + f":mode={sc['mode']}")
            if not o["fresh_ok"]:
                keys.add(f"not-set-afresh-after-{sc['env']}:" + "+".join(sorted({v for b in dt["bad_fresh"] for v in b.split(":")[1].split("+")})))
        if not keys:
            keys.add("documents-share-a-working-directory")
        for k in sorted(keys):
            V.violation(k, WHAT, {"experiment": r["sc"], "observed": r["obs"], "details": r["details"]})
    code, nviol, known = V.finish()
    if not replay:
        cov.update({
            "states": states, "transitions": trans, "traces_validated_against_impl": validated,
            "samples": [{"scenario": r["sc"], "observed": r["obs"]} for r in records[-2:]],
            "evaluations": sum(len(r["sc"]) for r in records),
            "distinct_nontrivial": len({json.dumps(r["sc"], sort_keys=True) for r in records if len(r["sc"]) >= 2 or len(r["sc"][0]["docs"]) >= 2}),
            "rule": "one evaluation = one real scrut process in an experiment of 1-3 processes started together under one private temporary root; non-trivial experiment = several processes or several documents; distinct by scenario",
            "known_findings_seen": known, "build_s": round(build_s, 1), "exhaustive": False,
        })
        write_evidence(prop, tier, "model_checking", cov,
                       ["TLC", "directory snapshots are taken by the driver after wait() of each process and again after a grace period longer than the longest command",
                        "left-over directories are attributed to a process by the paths its test cases saw; parse errors / missing shell create no directories at all and are covered by C20"],
                       time.time() - t0, nviol)
    log(f"{prop}: {validated} experiments validated by TLC, {nviol} violation(s), {time.time()-t0:.0f}s")
    return code

#!/usr/bin/env python3
"""Re-run one check against one kept seed after the check was extended (isolated pair: scratch worktree with the patch + copy
of /verif whose harness depends on it; /repo is never touched).  On detection the seed's meta.json gets the check in
`detected_by` and the given history text.
usage: seed_recheck.py <seed> <check> [--sv /tmp/sv9] [--mv /tmp/mut9/verif] [--history "text"]"""
import json, os, subprocess, sys, time

VERIF = os.path.dirname(os.path.dirname(os.path.abspath(__file__)))


def sh(cmd, cwd=None, timeout=3600):
    p = subprocess.run(cmd, shell=True, cwd=cwd, stdout=subprocess.PIPE, stderr=subprocess.STDOUT, text=True, timeout=timeout)
    return p.returncode, p.stdout


def main():
    a = sys.argv[1:]
    name, check = a[0], a[1]
    SV = a[a.index("--sv") + 1] if "--sv" in a else "/tmp/sv9"
    MV = a[a.index("--mv") + 1] if "--mv" in a else "/tmp/mut9/verif"
    hist = a[a.index("--history") + 1] if "--history" in a else None
    if not os.path.isdir(SV):
        code, o = sh(f"git -C /repo worktree add --detach {SV} HEAD")
        if code != 0:
            print(o); sys.exit(2)
    sh("git checkout -q --detach $(git -C /repo rev-parse HEAD) && git checkout -q -- . && git clean -fdq -e target", cwd=SV)
    os.makedirs(os.path.dirname(MV), exist_ok=True)
    sh(f"rsync -a --delete --exclude work --exclude harness/target --exclude replays --exclude .git {VERIF}/ {MV}/")
    sh(f"sed -i 's#path = \"/repo\"#path = \"{SV}\"#' {MV}/harness/Cargo.toml")
    d = os.path.join(VERIF, "seeded", name)
    code, o = sh(f"git apply {d}/patch.diff || git apply --3way {d}/patch.diff", cwd=SV)
    if code != 0:
        print(f"{name}: patch does not apply to the current HEAD\n{o[-400:]}"); sys.exit(2)
    try:
        t0 = time.time()
        code, o = sh(f"VERIF_NO_EVIDENCE=1 VERIF_REPO={SV} python3 run/check.py {check} --tier quick", cwd=MV, timeout=3000)
        lines = [l for l in o.splitlines() if l.startswith(("VIOLATION", "TOOL-ERROR", "DRIFT")) or l.startswith("  key=")]
        print(f"{name}: {check} exit={code} {round(time.time() - t0)}s  " + " | ".join(lines[:3])[:400], flush=True)
    finally:
        sh("git checkout -q -- . && git reset -q && git checkout -q -- . && git clean -fdq -e target", cwd=SV)
    if code == 1:
        mp = os.path.join(d, "meta.json")
        m = json.load(open(mp))
        if check not in m.get("detected_by", []):
            m.setdefault("detected_by", []).append(check)
        if hist:
            m["history"] = hist
        json.dump(m, open(mp, "w"), indent=1)
    sys.exit(0 if code == 1 else 1)


if __name__ == "__main__":
    main()

"""update command at file level (part of C10's check): TLC checks specs/UpdateCommand.tla and enumerates scenarios
(1-2 documents x class x stale `.new` file x --replace / --assume-yes / --convert); the real `scrut update` runs on each
sampled scenario in a private directory; TLC judges what the files / summary / exit status were afterwards."""
import concurrent.futures
import json
import os
import random
import re
import shutil
import subprocess
import tempfile

from lib import *

WHAT_CMD = "scrut update overwrote a file without request or consent, touched a passing document, left a failing one without update, or its summary does not account for every document"

MD = {
    "notests": "# d\n\nJust prose.\n",
    "prepend": "---\nprepend: [p1.md]\n---\n\n# d\n\n```scrut\n$ echo a\nb\n```\n",
    "append_fail": "---\nappend: [p1.md]\n---\n\n# d\n\n```scrut\n$ echo a\nb\n```\n",
    "skip": "# d\n\n```scrut\n$ exit 80\n```\n",
    "timeout": "# d\n\n```scrut {timeout: 1s}\n$ sleep 5\n```\n",
    # the shell of the second of three test cases is killed by a signal: there is no exit code to write an update from
    "killed": "# d\n\n```scrut\n$ echo one\none\n```\n\nprose between\n\n```scrut {timeout: 5s}\n# a comment\n$ kill -9 $$\n```\n\n```scrut\n$ echo three\nthree\n```\n\nprose after\n",
    # the passing document depends on the Markdown glob dialect (`\\*` is not an escaped star there) and on the per-test
    # environment of the Markdown executor (SCRUT_TEST set, no Cram variables)
    "allpass": "# d\n\n```scrut\n$ echo 'C:\\temp'; echo \"${SCRUT_TEST:+set}${CRAMTMP:-nocram}\"\nC:\\* (glob)\nsetnocram\n```\n",
    # a byte order mark in front of the first line is content like any other
    "fail": "\ufeff# d\n\nprose before\n\n```scrut\n$ echo a\nb\n```\n\nprose after\n",
    "failcode": "# d\n\n```scrut\n$ echo a; (exit 3)\na\n```\n",
}
CRAM = {
    "notests": "Just a title\n",
    "skip": "d\n  $ (exit 80)\n",
    "allpass": "d\n  $ echo 'C:*'; echo \"${CRAMTMP:+cram}\"\n  C:\\* (glob)\n  cram\n",
    "fail": "d\n  $ echo a\n  b\n",
    "failcode": "d\n  $ echo a; (exit 3)\n  a\n",
}
def confined(orig, want, got):
    """`got` differs from `orig` only where `want` (the expected update) differs from it: the lines outside the failing
    expectation are kept; WHAT is written there is judged by running `scrut test` on the file (the property does not fix
    the spelling of a regenerated expectation)"""
    import difflib
    o, w, g = orig.split("\n"), want.split("\n"), got.split("\n")
    region = [(i1, i2) for tag, i1, i2, _j1, _j2 in difflib.SequenceMatcher(None, o, w, autojunk=False).get_opcodes() if tag != "equal"]
    for tag, i1, i2, _j1, _j2 in difflib.SequenceMatcher(None, o, g, autojunk=False).get_opcodes():
        if tag != "equal" and not any(a <= i1 and i2 <= b for a, b in region):
            return False
    return True


def expected_update(fmt, cls, text):
    """the exact text an update of this document must produce (None: not predictable here)"""
    if fmt == "md" and cls in ("fail", "append_fail"):
        return text.replace("\n$ echo a\nb\n", "\n$ echo a\na\n")
    if fmt == "md" and cls == "failcode":
        return text.replace("\na\n```", "\na\n[3]\n```")
    if fmt == "cram" and cls == "fail":
        return text.replace("  $ echo a\n  b\n", "  $ echo a\n  a\n")
    if fmt == "cram" and cls == "failcode":
        return text.replace("  a\n", "  a\n  [3]\n")
    return None


STALE = "STALE CONTENT OF AN EARLIER RUN\n"
SUMMARY = re.compile(r"(\d+) document\(s\) of which (\d+) updated, (\d+) skipped and (\d+) unchanged")


def run_scenario(sc):
    root = tempfile.mkdtemp(prefix="scrut-verif-ucmd-", dir=os.environ.get("VERIF_SCRATCH", "/tmp"))
    try:
        ddir = os.path.join(root, "docs")
        os.makedirs(ddir)
        os.makedirs(os.path.join(root, "tmp"))
        with open(os.path.join(ddir, "p1.md"), "w") as f:
            f.write("# shared\n\n```scrut\n$ echo shared\nshared\n```\n")
        files = []
        for k, d in enumerate(sc["docs"]):
            ext = "md" if d["fmt"] == "md" else "t"
            text = (MD if d["fmt"] == "md" else CRAM)[d["cls"]]
            if d["cls"] == "allpass" and sc["flags"]["convert"] not in ("none", d["fmt"]):
                # a document that is converted must pass in the other format too: nothing format-specific in it
                text = "# d\n\n```scrut\n$ echo a\na\n```\n" if d["fmt"] == "md" else "d\n  $ echo a\n  a\n"
            orig = os.path.join(ddir, f"d{k + 1}.{ext}")
            with open(orig, "w") as f:
                f.write(text)
            new = orig + ".new"
            if d["stale"]:
                with open(new, "w") as f:
                    f.write(STALE)
            conv = os.path.join(root, f"d{k + 1}." + ("t" if ext == "md" else "md"))
            files.append({"orig": orig, "new": new, "conv": conv, "text": text, "want": expected_update(d["fmt"], d["cls"], text)})
        fl = sc["flags"]
        argv = [SCRUT_BIN, "update", "--no-color"] + (["--replace"] if fl["replace"] else []) + (["--assume-yes"] if fl["yes"] else [])
        if fl["convert"] != "none":
            argv += ["--convert", "markdown" if fl["convert"] == "md" else "cram"]
        argv += [x["orig"] for x in files]
        env = dict(os.environ, TMPDIR=os.path.join(root, "tmp"), NO_COLOR="1")
        env.pop("SCRUT_VERIF_TRACE", None)
        # step events of hook H5 (update.rs), only for the update run itself
        tpath = os.path.join(root, "trace.ndjson")
        p = subprocess.run(argv, cwd=root, env=dict(env, SCRUT_VERIF_TRACE=tpath), stdin=subprocess.DEVNULL, stdout=subprocess.PIPE, stderr=subprocess.PIPE, timeout=120)
        events = []
        if os.path.exists(tpath):
            for line in open(tpath, errors="replace"):
                if '"ev":"Upd' in line:
                    try:
                        e = json.loads(line)
                        events.append({k: v for k, v in e.items() if k not in ("seq", "pid", "path", "target")})
                    except ValueError:
                        pass
        out = p.stdout.decode("utf-8", "replace")
        m = SUMMARY.search(out)
        fs, written_pass, detail, blocks_kept = [], True, "", True
        for x in files:
            def content(path):
                return open(path, errors="replace").read() if os.path.exists(path) else None
            o, n, c = content(x["orig"]), content(x["new"]), content(x["conv"])
            st = {"orig": "original" if o == x["text"] else "changed",
                  "new": "absent" if n is None else "stale" if n == STALE else "changed",
                  "conv": "absent" if c is None else "changed"}
            fs.append(st)
            for role, path in (("orig", x["orig"]), ("new", x["new"]), ("conv", x["conv"])):
                if st[role] == "changed" and role != "conv" and x["want"] is not None and not confined(x["text"], x["want"], open(path, errors="replace").read()):
                    written_pass = False
                    detail = f"the written {role} file differs from the document outside its failing expectation: " + repr(open(path, errors="replace").read()[:200])
                if st[role] == "changed" and role != "conv" and x["orig"].endswith(".md"):
                    nb = lambda t: sum(1 for ln in t.split("\n") if ln.startswith("```scrut"))
                    got = open(path, errors="replace").read()
                    if nb(got) != nb(x["text"]):
                        blocks_kept = False
                        detail = f"the written {role} file has {nb(got)} of the document's {nb(x['text'])} test blocks: " + repr(got[:200])
                if st[role] == "changed":
                    # a `.new` file has no recognised extension: test a copy under the document's extension
                    tpath = path
                    if role == "new":
                        tpath = os.path.join(root, "check-" + os.path.basename(x["orig"]))
                        shutil.copy(path, os.path.join(ddir, os.path.basename(tpath)))
                        tpath = os.path.join(ddir, os.path.basename(tpath))
                    t = subprocess.run([SCRUT_BIN, "test", "--no-color", tpath], cwd=root, env=env, stdin=subprocess.DEVNULL, stdout=subprocess.PIPE, stderr=subprocess.PIPE, timeout=120)
                    if tpath != path:
                        os.unlink(tpath)
                    if t.returncode != 0:
                        written_pass = False
                        detail = f"`scrut test` on the written {role} file exits {t.returncode}: " + open(path, errors="replace").read()[:200]
        status = "ok" if p.returncode == 0 else "error"
        counts = {"updated": int(m.group(2)), "skipped": int(m.group(3)), "unchanged": int(m.group(4))} if m else {"updated": 0, "skipped": 0, "unchanged": 0}
        if m and int(m.group(1)) != sum(counts.values()):
            written_pass, detail = False, "summary total differs from the sum of its parts"
        return {"ev": "Load", "id": sc["id"], "docs": sc["docs"], "flags": fl, "written_pass": written_pass, "blocks_kept": blocks_kept,
                "obs": {"fs": fs, "counts": counts, "status": status}, "has_summary": bool(m), "exit": p.returncode,
                "detail": detail, "stdout": out[-400:], "stderr": p.stderr.decode("utf-8", "replace")[-400:], "events": events}
    except subprocess.TimeoutExpired:
        return {"ev": "Load", "id": sc["id"], "docs": sc["docs"], "flags": sc["flags"], "written_pass": False, "blocks_kept": True,
                "obs": {"fs": [{"orig": "original", "new": "absent", "conv": "absent"} for _ in sc["docs"]], "counts": {"updated": 0, "skipped": 0, "unchanged": 0}, "status": "error"},
                "has_summary": False, "exit": -1, "detail": "scrut update hung", "stdout": "", "stderr": "", "events": []}
    finally:
        shutil.rmtree(root, ignore_errors=True)


def stage(prop, tier, work, V, cov, s, replay_body=None):
    """returns the number of runs validated"""
    if replay_body is not None:
        scenarios = [replay_body["scenario"]]
    else:
        res = tlc("MC_UpdateCommand", "MC_UpdateCommand.cfg", work, workers=min(NCPU, 8), timeout=1200, coverage=True,
                  line_filter=lambda l: l.startswith('<<"REPLAY"') or l.startswith("Error") or "violated" in l)
        tlc_must_pass(res, "UpdateCommand MC")
        require_actions(res, ["SkipNoTests", "SkipPrepend", "SkipCode", "AbortExec", "Unchanged", "AskNoTty", "Write", "Finish"], "UpdateCommand")
        allsc = [json.loads(t) for t in sorted({f[0] for f in res.printed("REPLAY")})]
        one = [x for x in allsc if len(x["docs"]) == 1]
        two = [x for x in allsc if len(x["docs"]) == 2]
        rnd = random.Random(s * 31 + 7)
        # two documents of either format, passing or failing, in every order (state must not leak from one document into the next)
        pairs = [x for x in two if all(d["cls"] in ("allpass", "fail") and not d["stale"] for d in x["docs"])
                 and x["flags"]["convert"] == "none" and x["flags"]["replace"] == x["flags"]["yes"]]
        two = [x for x in two if x not in pairs]
        scenarios = one + pairs + (two if tier == "thorough" and len(two) <= 3000 else rnd.sample(two, min(len(two), 120 if tier == "quick" else 3000)))
        cov["update_command_states"] = res.distinct
        cov["update_command_scenarios_enumerated"] = len(allsc)
        log(f"MC UpdateCommand: {res.distinct} states, {len(allsc)} scenarios; machine satisfies NoSilentOverwrite/StaleKept/PassingUntouched/FailingGetsUpdated/Accounted, {res.wall:.0f}s")
    for k, x in enumerate(scenarios):
        x["id"] = k + 1
    with concurrent.futures.ThreadPoolExecutor(max_workers=min(NCPU, 12)) as ex:
        records = list(ex.map(run_scenario, scenarios))
    results, printed = tlc_validate_sharded("UpdateCommandTrace", "UpdateCommandTrace.cfg", records, work, shards=min(NCPU, 4),
                                            slim=lambda r: {k: r[k] for k in ("ev", "id", "docs", "flags", "obs", "written_pass", "blocks_kept", "has_summary")},
                                            tags=("VERDICT", "DRIFT"))
    for r in results:
        tlc_must_pass(r, "UpdateCommandTrace VAL")
    validated = sum(r.distinct - 1 for r in results)
    if validated != len(records):
        raise ToolError(f"update command trace validation consumed {validated} of {len(records)} records")
    byid = {r["id"]: r for r in records}

    def shape(r):
        fl = r["flags"]
        return "+".join(f"{d['fmt']}:{d['cls']}{':stale' if d['stale'] else ''}" for d in r["docs"]) + \
            f";replace={int(fl['replace'])};yes={int(fl['yes'])};convert={fl['convert']}"
    for name, rid in printed["VERDICT"]:
        r = byid[rid]
        V.violation(f"update-command:{name}:{shape(r)}", WHAT_CMD,
                    {"stage": "updatecmd", "scenario": {"docs": r["docs"], "flags": r["flags"]}, "observed": r["obs"], "exit": r["exit"],
                     "detail": r["detail"], "stdout": r["stdout"], "stderr": r["stderr"]})
    for _n, rid in printed["DRIFT"]:
        r = byid[rid]
        V.add_drift(f"update command: the machine of specs/UpdateCommand.tla predicts a different final state for {shape(r)}: observed {json.dumps(r['obs'])[:300]} exit={r['exit']}")
    # ---- step level: hook events of every run against the actions of the machine
    steps = []
    for r in records:
        steps.append({"ev": "Scenario", "docs": r["docs"], "flags": r["flags"]})
        steps.extend(r["events"])
    spath = os.path.join(work, "ucmd_steps.ndjson")
    write_ndjson(spath, steps)
    rs_ = tlc("UpdateCommandStepTrace", "UpdateCommandStepTrace.cfg", work, workers=1, env={"TRACE": spath}, depth_first=True, timeout=1200,
              line_filter=lambda l: l.startswith("<<") or l.startswith("Error") or "violated" in l)
    accepted = bool(rs_.printed("ACCEPTED"))
    cov["update_command_step_events"] = len(steps)
    cov["update_command_step_trace_accepted"] = accepted
    if not accepted:
        dr = rs_.printed("DRIFT")
        V.add_drift(f"update command step trace rejected at event {dr[0][0] if dr else '?'} of {len(steps)}: {str(dr[0][1])[:200] if dr else rs_.error}")
    cov["update_command_runs_validated"] = validated
    return validated

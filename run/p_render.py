"""C19 — Render: TLC checks the hunk assembler of the diff renderer on every diff shape the matcher can produce within
the bound and emits the shapes; each is concretised with several text families and rendered by all five renderers of
the real code; TLC judges every record."""
import json
import os
import time

from lib import *

ACTIONS = ["StartRender", "RMatched", "RUnmatched", "RUnexpected", "RFinal"]
WHAT = "a renderer crashed / returned no rendering, or a difference is not shown, or a passed test got a failure section, or structured output is malformed"


def run(prop, tier, replay=None):
    t0 = time.time()
    work = workdir(f"{prop}-{tier}")
    build_s = build()
    V = Verdicts(prop)
    s = seed()
    cov = {}
    if replay:
        with open(replay) as f:
            body = json.load(f)
        vectors = [body["replay"]["vector"]]
        states = trans = 0
    else:
        ne, nl = (3, 2) if tier == "quick" else (3, 3)
        cfg = os.path.join(work, "MC.cfg")
        with open(cfg, "w") as f:
            f.write(f"SPECIFICATION RSpec\nCONSTANTS\n  NE = {ne}\n  NL = {nl}\nINVARIANTS ShowsAll Emit\nCHECK_DEADLOCK FALSE\n")
        res = tlc("MC_Render", cfg, work, workers=min(NCPU, 12), coverage=True, timeout=3000,
                  line_filter=lambda l: l.startswith('<<"REPLAY"') or l.startswith("Error") or "violated" in l)
        tlc_must_pass(res, "Render MC")
        require_actions(res, ACTIONS, "Render MC")
        vectors = [json.loads(t) for t in sorted({f[0] for f in res.printed("REPLAY")})]
        for i, v in enumerate(vectors):
            v["id"] = i + 1
            v["seed"] = s
        # probes beyond the bound: long outputs with multi-line runs (line numbers with more digits than expectations)
        import random
        rnd = random.Random(s * 7919 + 3)
        nprobe = 300 if tier == "quick" else 3000
        for j in range(nprobe):
            n = rnd.randint(1, 4)
            m = rnd.randint(8, 14)
            q = [rnd.choice(["1", "?", "*", "+", "+", "*"]) for _ in range(n)]
            M = []
            cut = sorted(rnd.sample(range(1, m + 1), min(n, m)))
            for kk in range(n):
                if q[kk] in "*+" and rnd.random() < 0.8:
                    lo = cut[kk] if kk < len(cut) else m
                    hi = min(m, lo + rnd.randint(3, 11))
                    row = [l for l in range(lo, hi + 1) if rnd.random() < 0.95]
                else:
                    row = [l for l in range(1, m + 1) if rnd.random() < 0.12]
                M.append(sorted(set(row)))
            vectors.append({"id": len(vectors) + 1, "seed": s, "n": n, "m": m, "q": q, "M": M, "out": [], "hunks": [], "probe": True})
        cov["probes_beyond_bound"] = nprobe
        states, trans = res.distinct, res.generated
        cov["mc_action_counts"] = {a: res.actions[a][1] for a in ACTIONS}
        cov["diff_shapes"] = len({json.dumps(v["out"]) for v in vectors})
        log(f"MC Render {ne}x{nl}: {res.distinct} states; the hunk assembler shows every difference exactly once for all {len(vectors)} inputs ({cov['diff_shapes']} distinct diff shapes), {res.wall:.0f}s")
    vpath, rpath = os.path.join(work, "vectors.ndjson"), os.path.join(work, "records.ndjson")
    write_ndjson(vpath, vectors)
    harness(["render-replay", "--vectors", vpath, "--records", rpath, "--seed", s], timeout=3000)
    records = read_ndjson(rpath)
    results, printed = tlc_validate_sharded("RenderTrace", "RenderTrace.cfg", records, work, shards=min(NCPU, 8),
                                            slim=lambda r: {"ev": r["ev"], "id": r["id"], "n_outcomes": r["n_outcomes"],
                                                            "obs": {n: {k: o[k] for k in ("result", "missing", "entries", "kinds_ok", "passed_shown")} for n, o in r["obs"].items()}})
    for r in results:
        tlc_must_pass(r, "RenderTrace VAL")
    validated = sum(r.distinct - 1 for r in results)
    if validated != len(records):
        raise ToolError(f"trace validation consumed {validated} of {len(records)} records")
    byid = {r["id"]: r for r in records}
    vec = {v["id"]: v for v in vectors}
    for _p, rid, name in printed["VERDICT"]:
        r = byid[rid]
        o = r["obs"][name]
        why = o["result"] + (":" + o["msg"][:50] if o["result"] != "ok" else "") if o["result"] != "ok" else \
            "difference-not-shown" if o["missing"] else "passed-test-shown" if o["passed_shown"] else "entries-or-kinds"
        V.violation(f"{name}:{why}:text={r['family']}" + (":no-final-eol" if not r["final_newline"] and o["result"] == "ok" else ""), WHAT,
                    {"vector": vec.get(r["vid"]), "record": {k: r[k] for k in r if k != "obs"}, "observed": o})
    code, nviol, known = V.finish()
    if not replay:
        cov.update({
            "states": states, "transitions": trans, "traces_validated_against_impl": validated,
            "samples": [{k: r[k] for k in ("family", "kinds", "expectations", "surround", "absolute", "format")} for r in records[100:103]],
            "evaluations": len(records) * 5,
            "distinct_nontrivial": len({(json.dumps(r["out_model"]), r["family"], tuple(r["kinds"])) for r in records if r["main_kind"] == "malformed_output"}),
            "rule": "one evaluation = one renderer on one outcome list (1-2 outcomes: a real diff of an enumerated shape in one of 8 text families + a second outcome of another result kind); non-trivial = the main outcome has differences; distinct by (diff shape, text family, kinds)",
            "known_findings_seen": known, "build_s": round(build_s, 1), "exhaustive": False,
        })
        write_evidence(prop, tier, "model_checking", cov,
                       ["TLC", "'shown' is judged by substring search of the escaped / original text (trailing blanks trimmed, ANSI colour sequences removed)",
                        "valid UTF-8 text; the same matrix concretisation as C01"], time.time() - t0, nviol)
    log(f"{prop}: {validated} outcome lists x 5 renderers validated by TLC, {nviol} violation(s), {time.time()-t0:.0f}s")
    return code

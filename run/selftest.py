#!/usr/bin/env python3
"""Binding demonstration: corrupt one recorded field / drop one hook event and require that TLC rejects the trace.
usage: selftest.py   (uses the step traces of the last C01 and C14 quick runs; runs them first if missing)"""
import json, os, subprocess, sys
sys.path.insert(0, os.path.dirname(os.path.abspath(__file__)))
from lib import *

def accepted_diff(work, path):
    r = tlc("DiffStepTrace", "DiffStepTrace.cfg", work, workers=1, env={"TRACE": path}, depth_first=True, timeout=600,
            line_filter=lambda l: l.startswith("<<") or "rror" in l)
    return r.ok

def accepted_e2e(work, path):
    r = tlc("TestCommandStepTrace", "TestCommandStepTrace.cfg", work, workers=1, env={"TRACE": path}, depth_first=True, timeout=600,
            line_filter=lambda l: l.startswith("<<") or "rror" in l)
    return bool(r.printed("ACCEPTED"))

def main():
    work = workdir("selftest")
    results = []
    for prop, name, acc in (("C01", "steps.ndjson", accepted_diff), ("C14", "steps.ndjson", accepted_e2e)):
        src = os.path.join(WORKROOT, f"{prop}-quick", name)
        if not os.path.exists(src):
            subprocess.run([sys.executable, os.path.join(VERIF, "run", "check.py"), prop], check=False, stdout=subprocess.DEVNULL)
        recs = read_ndjson(src)[:4000]
        # cut at a run boundary
        last = max(i for i, r in enumerate(recs) if r["ev"] in ("Input", "Scenario"))
        recs = recs[:last]
        base = os.path.join(work, f"{prop}_base.ndjson"); write_ndjson(base, recs)
        ok0 = acc(work, base)
        # corruption 1: change one recorded field
        c1 = [dict(r) for r in recs]
        idx = next(i for i, r in enumerate(c1) if r["ev"] in ("SingleMatch", "PickLimit") and i > len(c1) // 2)
        if c1[idx]["ev"] == "PickLimit":
            c1[idx]["is_global"] = not c1[idx]["is_global"]
        else:
            c1[idx]["ei"] += 1
        p1 = os.path.join(work, f"{prop}_corrupt.ndjson"); write_ndjson(p1, c1)
        ok1 = acc(work, p1)
        # corruption 2: drop one hook event
        c2 = [r for i, r in enumerate(recs) if i != idx]
        p2 = os.path.join(work, f"{prop}_dropped.ndjson"); write_ndjson(p2, c2)
        ok2 = acc(work, p2)
        results.append((prop, ok0, ok1, ok2))
        log(f"{prop}: unmodified trace accepted={ok0}; one field changed accepted={ok1}; one event dropped accepted={ok2}")
    # record-level trace (update command): flip one observed file state and require a verdict from TLC
    src = os.path.join(WORKROOT, "C10-quick", "UpdateCommandTrace_shard0.ndjson")
    if not os.path.exists(src):
        subprocess.run([sys.executable, os.path.join(VERIF, "run", "check.py"), "C10"], check=False, stdout=subprocess.DEVNULL)
    recs = read_ndjson(src)[:200]
    def verdicts(path):
        r = tlc("UpdateCommandTrace", "UpdateCommandTrace.cfg", work, workers=1, env={"TRACE": path}, depth_first=True, timeout=600,
                line_filter=lambda l: l.startswith("<<") or "rror" in l)
        return len(r.printed("VERDICT")), r.ok
    base = os.path.join(work, "ucmd_base.ndjson"); write_ndjson(base, recs)
    v0, ok0 = verdicts(base)
    c1 = json.loads(json.dumps(recs))
    idx = next(i for i, r in enumerate(c1) if not r["flags"]["replace"])
    c1[idx]["obs"]["fs"][0]["orig"] = "changed"
    p1 = os.path.join(work, "ucmd_corrupt.ndjson"); write_ndjson(p1, c1)
    v1, _ = verdicts(p1)
    log(f"UpdateCommand: recorded runs: {v0} verdict(s), accepted={ok0}; with one document marked as overwritten without --replace: {v1} verdict(s)")
    results.append(("UpdateCommand", ok0 and v0 == 0, v1 == 0, False))
    # step-level trace of the update command (hook H5): change the kind of one written target / drop one event
    src = os.path.join(WORKROOT, "C10-quick", "ucmd_steps.ndjson")
    recs = read_ndjson(src)
    def acc_upd(path):
        r = tlc("UpdateCommandStepTrace", "UpdateCommandStepTrace.cfg", work, workers=1, env={"TRACE": path}, depth_first=True, timeout=600,
                line_filter=lambda l: l.startswith("<<") or "rror" in l)
        return bool(r.printed("ACCEPTED"))
    base = os.path.join(work, "ucmds_base.ndjson"); write_ndjson(base, recs)
    ok0 = acc_upd(base)
    c1 = json.loads(json.dumps(recs))
    idx = next(i for i, r in enumerate(c1) if r["ev"] == "UpdWrite" and i > len(c1) // 3)
    c1[idx]["kind"] = "orig" if c1[idx]["kind"] != "orig" else "new"
    p1 = os.path.join(work, "ucmds_corrupt.ndjson"); write_ndjson(p1, c1)
    ok1 = acc_upd(p1)
    p2 = os.path.join(work, "ucmds_dropped.ndjson"); write_ndjson(p2, [r for i, r in enumerate(recs) if i != idx])
    ok2 = acc_upd(p2)
    results.append(("UpdateCommandSteps", ok0, ok1, ok2))
    log(f"UpdateCommand steps: unmodified trace accepted={ok0}; target kind changed accepted={ok1}; one event dropped accepted={ok2}")
    # record-level trace (file discovery): drop one executed document from a recorded run / report success for a path that
    # does not exist, and require a verdict from TLC for each
    src = os.path.join(WORKROOT, "C20-quick", "DiscoveryTrace_shard0.ndjson")
    if not os.path.exists(src):
        subprocess.run([sys.executable, os.path.join(VERIF, "run", "check.py"), "C20"], check=False, stdout=subprocess.DEVNULL)
    recs = read_ndjson(src)[:60]
    def dverdicts(path):
        r = tlc("DiscoveryTrace", "DiscoveryTrace.cfg", work, workers=1, env={"TRACE": path}, depth_first=True, timeout=600,
                line_filter=lambda l: l.startswith("<<") or "rror" in l)
        return len(r.printed("VERDICT")), r.ok
    base = os.path.join(work, "disc_base.ndjson"); write_ndjson(base, recs)
    v0, ok0 = dverdicts(base)
    c1 = json.loads(json.dumps(recs))
    idx = next(i for i, r in enumerate(c1) if len(r["obs"]["ran"]) >= 2 and r["obs"]["exit"] == 0)
    c1[idx]["obs"]["ran"] = c1[idx]["obs"]["ran"][1:]
    c1[idx]["obs"]["nres"] -= 1
    p1 = os.path.join(work, "disc_dropped.ndjson"); write_ndjson(p1, c1)
    v1, _ = dverdicts(p1)
    c2 = json.loads(json.dumps(recs))
    idx2 = next((i for i, r in enumerate(c2) if r["obs"]["exit"] == 1), None)
    v2 = 1
    if idx2 is not None:
        c2[idx2]["obs"]["exit"] = 0
        p2 = os.path.join(work, "disc_exit.ndjson"); write_ndjson(p2, c2)
        v2, _ = dverdicts(p2)
    log(f"Discovery: recorded runs: {v0} verdict(s), accepted={ok0}; one executed document dropped: {v1} verdict(s); exit 0 for a path that does not exist: {v2} verdict(s)")
    results.append(("Discovery", ok0 and v0 == 0, v1 == 0, v2 == 0))
    good = all(a and not b and not c for _, a, b, c in results)
    log("SELFTEST " + ("OK: the trace specifications accept the recorded traces and reject both corruptions" if good else "FAILED"))
    sys.exit(0 if good else 2)

if __name__ == "__main__":
    main()

#!/bin/sh
# run every check of one tier sequentially; prints one status line per property
tier=${1:-quick}
cd "$(dirname "$0")/.."
for p in C01 C02 C03 C04 C05 C06 C07 C08 C09 C10 C11 C12 C13 C14 C15 C16 C17 C18 C19 C20; do
  s=$(date +%s)
  python3 run/check.py $p --tier $tier > work/all_$p.log 2>&1
  code=$?
  echo "$p tier=$tier exit=$code $(( $(date +%s) - s ))s $(grep -c '^VIOLATION' work/all_$p.log) violation-lines $(grep -c '^KNOWN-FINDING' work/all_$p.log) known $(tail -1 work/all_$p.log | cut -c1-160)"
done

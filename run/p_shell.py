"""C12 — ShellCarrier: TLC checks the carrier (restore / run / probe / dump, detached test cases) against ONE reference
session for all short histories and generates longer histories by simulation; each history is run through the real
StatefulExecutor + BashRunner and through one real bash session; TLC compares every probe with the reference."""
import json
import os
import time

from lib import *

ACTIONS = ["Start", "RunOp", "EndOps", "Probe", "DumpAndExit"]
WHAT = "a test case did not observe the shell state that a single bash session would show at that point"


def run(prop, tier, replay=None):
    t0 = time.time()
    work = workdir(f"{prop}-{tier}")
    build_s = build()
    V = Verdicts(prop)
    s = seed()
    cov = {}
    if replay:
        with open(replay) as f:
            body = json.load(f)
        vectors = [body["replay"]["vector"]]
        states = trans = 0
    else:
        res = tlc("MC_ShellCarrier", "MC_ShellCarrier.cfg", work, workers=min(NCPU, 12), coverage=True, timeout=3000,
                  line_filter=lambda l: l.startswith("Error") or "violated" in l)
        tlc_must_pass(res, "ShellCarrier MC")
        require_actions(res, ACTIONS, "ShellCarrier MC")
        states, trans = res.distinct, res.generated
        log(f"MC ShellCarrier (2 test cases x 1 operation, detached or not): {res.distinct} states, every probe equals the reference session, {res.wall:.0f}s")
        # GEN: exhaustive short histories (every single operation after every single operation) + simulated long ones
        cfg1 = os.path.join(work, "GEN_short.cfg")
        with open(cfg1, "w") as f:
            f.write("SPECIFICATION Spec\nCONSTANTS\n  MaxTests = 2\n  MaxOps = 1\n  Family = \"all\"\nINVARIANTS Emit\nCHECK_DEADLOCK FALSE\n")
        r1 = tlc("MC_ShellCarrier", cfg1, work, workers=min(NCPU, 8), timeout=3000, line_filter=lambda l: l.startswith('<<"REPLAY"') or l.startswith("Error"))
        tlc_must_pass(r1, "ShellCarrier GEN short")
        short = [json.loads(t) for t in sorted({f[0] for f in r1.printed("REPLAY")})]
        import random
        rnd = random.Random(s * 31 + 7)
        nshort = 150 if tier == "quick" else 4000
        short = short if len(short) <= nshort else rnd.sample(short, nshort)
        cfg2 = os.path.join(work, "GEN_long.cfg")
        with open(cfg2, "w") as f:
            f.write("SPECIFICATION Spec\nCONSTANTS\n  MaxTests = 4\n  MaxOps = 2\n  Family = \"all\"\nINVARIANTS Emit\nCHECK_DEADLOCK FALSE\n")
        nlong = 120 if tier == "quick" else 2500
        r2 = tlc("MC_ShellCarrier", cfg2, work, workers=1, timeout=3000, simulate=f"num={nlong}", extra=["-depth", "60", "-seed", str(s + 1)],
                 line_filter=lambda l: l.startswith('<<"REPLAY"') or l.startswith("Error"))
        longs = [json.loads(t) for t in sorted({f[0] for f in r2.printed("REPLAY")})]
        if len(longs) < nlong // 2:
            raise ToolError(f"simulation produced only {len(longs)} histories")
        # interplay family: every history of 3 test cases x 1 operation over the operations whose restore order matters
        cfg3 = os.path.join(work, "GEN_interplay.cfg")
        with open(cfg3, "w") as f:
            f.write("SPECIFICATION Spec\nCONSTANTS\n  MaxTests = 3\n  MaxOps = 1\n  Family = \"interplay\"\nINVARIANTS CarriesOver Emit\nCHECK_DEADLOCK FALSE\n")
        r3 = tlc("MC_ShellCarrier", cfg3, work, workers=min(NCPU, 8), timeout=3000, line_filter=lambda l: l.startswith('<<"REPLAY"') or l.startswith("Error"))
        tlc_must_pass(r3, "ShellCarrier GEN interplay")
        inter = [json.loads(t) for t in sorted({f[0] for f in r3.printed("REPLAY")})]
        inter = [v for v in inter if not any(t["detached"] for t in v["hist"][:2])]      # the first two must leave their state behind
        ninter = 250 if tier == "quick" else len(inter)
        # always run: define a function / an alias in the first two test cases (either order), look in the third -- the
        # order in which functions and aliases are restored shows there
        fa = lambda t: len(t["ops"]) == 1 and t["ops"][0]["op"] in ("deffunc", "defalias", "unalias", "unsetfunc")
        must = [v for v in inter if len(v["hist"]) == 3 and fa(v["hist"][0]) and fa(v["hist"][1]) and not v["hist"][2]["ops"]]
        rest = [v for v in inter if v not in must]
        inter = must + (rest if len(rest) <= ninter else rnd.sample(rest, ninter))
        cov["histories_function_alias_order"] = len(must)
        # persist family: option on / one representative operation / look -- complete in both tiers
        cfg4 = os.path.join(work, "GEN_persist.cfg")
        with open(cfg4, "w") as f:
            f.write("SPECIFICATION Spec\nCONSTANTS\n  MaxTests = 3\n  MaxOps = 1\n  Family = \"persist\"\nINVARIANTS CarriesOver Emit\nCHECK_DEADLOCK FALSE\n")
        r4 = tlc("MC_ShellCarrier", cfg4, work, workers=min(NCPU, 8), timeout=3000, line_filter=lambda l: l.startswith('<<"REPLAY"') or l.startswith("Error"))
        tlc_must_pass(r4, "ShellCarrier GEN persist")
        pers = [json.loads(t) for t in sorted({f[0] for f in r4.printed("REPLAY")})]
        pers = [v for v in pers if not any(t["detached"] for t in v["hist"]) and len(v["hist"][0]["ops"]) == 1 and len(v["hist"][1]["ops"]) == 1]
        cov["histories_persist_family"] = len(pers)
        # script family: the same kind of history through the single-script executor (--cram-compat / Cram documents)
        cfg5 = os.path.join(work, "GEN_script.cfg")
        with open(cfg5, "w") as f:
            f.write("SPECIFICATION Spec\nCONSTANTS\n  MaxTests = 3\n  MaxOps = 1\n  Family = \"script\"\nINVARIANTS CarriesOver Emit\nCHECK_DEADLOCK FALSE\n")
        r5 = tlc("MC_ShellCarrier", cfg5, work, workers=min(NCPU, 8), timeout=3000, line_filter=lambda l: l.startswith('<<"REPLAY"') or l.startswith("Error"))
        tlc_must_pass(r5, "ShellCarrier GEN script")
        scr = [json.loads(t) for t in sorted({f[0] for f in r5.printed("REPLAY")})]
        scr = [v for v in scr if len(v["hist"][0]["ops"]) == 1 and len(v["hist"][1]["ops"]) == 1]
        nscr = 120 if tier == "quick" else len(scr)
        keep_ = [v for v in scr if v["hist"][0]["ops"][0]["op"] == "cfgenv" and v["hist"][0]["ops"][0]["c"] in ("plain", "spaces")]
        rest_ = [v for v in scr if v not in keep_]
        scr = keep_ + (rest_ if len(rest_) <= nscr else rnd.sample(rest_, max(0, nscr - len(keep_))))
        for v in scr:
            v["exec"] = "script"
        cov["histories_script_family"] = len(scr)
        inter = inter + pers + scr
        cov["histories_interplay_family"] = len(inter)
        vectors = short + longs + inter
        for i, v in enumerate(vectors):
            v["id"] = i + 1
        cov["histories_short_exhaustive_family"] = len(short)
        cov["histories_long_simulated"] = len(longs)
        log(f"GEN: {len(short)} two-step histories, {len(longs)} simulated histories of 4 test cases x <= 2 operations")
    vpath, rpath = os.path.join(work, "vectors.ndjson"), os.path.join(work, "records.ndjson")
    write_ndjson(vpath, vectors)
    harness(["shell-replay", "--vectors", vpath, "--records", rpath], timeout=6000, env={"VERIF_THREADS": "8"})
    records = read_ndjson(rpath)
    results, printed = tlc_validate_sharded("ShellTrace", "ShellTrace.cfg", records, work, shards=min(NCPU, 6),
                                            slim=lambda r: {k: r[k] for k in ("ev", "id", "hist", "ref", "obs", "single")}, tags=("VERDICT", "TOOL"))
    for r in results:
        tlc_must_pass(r, "ShellTrace VAL")
    validated = sum(r.distinct - 1 for r in results)
    if validated != len(records):
        raise ToolError(f"trace validation consumed {validated} of {len(records)} records")
    byid = {r["id"]: r for r in records}
    det_total = sum(1 for r in records for t in r["hist"] if t["detached"])
    det_seen = sum(1 for r in records for t, o in zip(r["hist"], r["obs"]) if t["detached"] and isinstance(o, dict) and "vars" in o)
    if det_total and det_seen * 2 < det_total:
        print(f"DRIFT property={prop} only {det_seen} of {det_total} detached test cases wrote their probe file and were judged")
    cov["detached_test_cases_observed"] = f"{det_seen} of {det_total}"
    if printed["TOOL"]:
        r = byid[printed["TOOL"][0][1]]
        raise ToolError(f"my model of bash disagrees with a real single bash session for {len(printed['TOOL'])} histories, e.g. {json.dumps(r['hist'])[:400]} single={json.dumps(r['single'])[:400]}")
    for _p, rid, k in printed["VERDICT"]:
        r = byid[rid]
        o, ref = r["obs"][k - 1], r["ref"][k - 1]
        ops_before = [op["op"] + ":" + str(op["a"]) for t in r["hist"][:k] for op in t["ops"]]
        if not isinstance(o, dict) or "vars" not in o:
            diffs = ["no-probe-output"]
        else:
            diffs = []
            for n in sorted(ref["vars"]):
                if o["vars"][n]["kind"] != ref["vars"][n]["kind"] or (ref["vars"][n]["kind"] != "unset" and (o["vars"][n]["ex"] != ref["vars"][n]["ex"] or o["vars"][n]["val"] != ref["vars"][n]["val"])):
                    diffs.append(f"variable({ref['vars'][n]['kind']},{ref['vars'][n]['val']},exported={ref['vars'][n]['ex']})")
            for f_, name in (("funcs", "f1"), ("aliases", "a1")):
                if o[f_][name] != ref[f_][name]:
                    diffs.append(f_)
            for f_ in ("opts", "shopts"):
                if set(o[f_]) != set(ref[f_]):
                    diffs.append(f_)
            if o["cwd"] != ref["cwd"]:
                diffs.append("cwd")
            if o.get("optind") != ref.get("optind"):
                diffs.append("optind")
            if o["stack"] != ref["stack"]:
                diffs.append("dirstack")
            if not o["env_ok"]:
                diffs.append("environment")
        # which options were on in the process that wrote the state (they are the usual culprits)
        ctx = sorted(set(r["ref"][k - 2]["opts"]) | set(r["ref"][k - 2]["shopts"])) if k >= 2 else []
        V.violation(f"{'+'.join(sorted(set(diffs)))}:with={'+'.join(ctx) or 'no-options'}", WHAT,
                    {"vector": {"hist": r["hist"], "ref": r["ref"]}, "test_case": k, "observed": o, "expected": ref, "operations_so_far": ops_before})
    code, nviol, known = V.finish()
    if not replay:
        cov.update({
            "states": states, "transitions": trans, "traces_validated_against_impl": validated,
            "samples": [{"hist": [[o["op"] + " " + str(o["a"]) for o in t["ops"]] + (["(detached)"] if t["detached"] else []) for t in r["hist"]]} for r in records[-3:]],
            "evaluations": sum(len(r["hist"]) for r in records),
            "distinct_nontrivial": len({json.dumps(r["hist"], sort_keys=True) for r in records if sum(len(t["ops"]) for t in r["hist"]) >= 2}),
            "rule": "one evaluation = one test case run in its own bash process by the real StatefulExecutor/BashRunner and probed for its complete modelled state; non-trivial history = at least two operations; distinct by history",
            "known_findings_seen": known, "build_s": round(build_s, 1), "exhaustive": False,
        })
        write_evidence(prop, tier, "model_checking", cov,
                       ["TLC", "the bash in /bin/bash; my model of bash is cross-checked against ONE real bash session on every history (disagreement = tool error, exit 2)",
                        "readonly variables and user EXIT traps are outside the property's state classes and are not generated"], time.time() - t0, nviol)
    log(f"{prop}: {validated} histories validated by TLC, {nviol} violation(s), {time.time()-t0:.0f}s")
    return code

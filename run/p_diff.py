"""C01 / C02 / C03 — DiffAlgo: MC + GEN -> replay -> VAL(P) + VAL(A) + probes beyond the bound."""
import json
import os
import time

from lib import *

ACTIONS = ["MultiYield", "MultiConsume", "SingleMatch", "RunEnd", "PeekExp", "PeekLine", "PeekNone", "TailStep"]
WHAT = {
    "C01": "scrut judged an output as matching although it is not in the language of the expectations",
    "C02": "diff result loses / duplicates / mislabels an output line or expectation, or the comparison crashed",
    "C03": "deterministic expectations that describe the output were reported as not matching",
}


def _cfg(work, name, ne, nl, body):
    path = os.path.join(work, name)
    with open(path, "w") as f:
        f.write(f"SPECIFICATION Spec\nCONSTANTS\n  NE = {ne}\n  NL = {nl}\n{body}\nCHECK_DEADLOCK FALSE\n")
    return path


def slim(r):
    return {k: r[k] for k in ("ev", "id", "n", "m", "q", "M", "out", "hd", "bytes_ok", "err", "val_out", "val_err",
                              "panic", "hang")}


def run(prop, tier, replay=None):
    t0 = time.time()
    work = workdir(f"{prop}-{tier}")
    build_s = build()
    V = Verdicts(prop)
    s = seed()
    cov = {}
    if replay:
        with open(replay) as f:
            body = json.load(f)
        vec = body["replay"]["job"]
        vec["out"] = []
        write_ndjson(os.path.join(work, "vectors.ndjson"), [vec])
        harness(["diff-replay", "--vectors", os.path.join(work, "vectors.ndjson"), "--records",
                 os.path.join(work, "records.ndjson"), "--seed", vec.get("seed", s)])
        records = read_ndjson(os.path.join(work, "records.ndjson"))
        mc_states = mc_trans = 0
        bounds = "replay"
    else:
        # ---- MC: the (A) machine satisfies the (P) predicates for every abstract input in the bound
        bounds_list = [(3, 3)] if tier == "quick" else [(3, 3), (4, 3), (3, 4), (2, 5)]
        mc_states = mc_trans = 0
        per_action = {}
        for (ne, nl) in bounds_list:
            cfg = _cfg(work, f"MC_{ne}x{nl}.cfg", ne, nl,
                       "INVARIANTS TypeOK Sound Conserve Complete RefAgree\nPROPERTIES Progress" +
                       (" Terminates" if (ne, nl) == (3, 3) and tier != "quick" else ""))
            res = tlc("MC_DiffAlgo", cfg, work, workers=min(NCPU, 12), coverage=True, timeout=3000,
                      line_filter=lambda l: l.startswith("Error") or "violated" in l)
            tlc_must_pass(res, f"DiffAlgo MC {ne}x{nl}")
            require_actions(res, ACTIONS, f"DiffAlgo MC {ne}x{nl}")
            mc_states += res.distinct
            mc_trans += res.generated
            for a in ACTIONS:
                per_action[a] = per_action.get(a, 0) + res.actions[a][1]
            log(f"MC DiffAlgo {ne}x{nl}: {res.distinct} distinct states, {res.generated} generated, {res.wall:.0f}s, all invariants hold")
        cov["mc_bounds"] = [f"{a}x{b}" for a, b in bounds_list]
        cov["mc_action_counts"] = per_action
        # vacuity: the antecedents of C03 / the nondeterministic false-failure case are reachable
        cfgv = _cfg(work, "VAC.cfg", 3, 3, "INVARIANTS NeverDetAccept")
        rv = tlc("MC_DiffAlgo", cfgv, work, workers=4, timeout=600, line_filter=lambda l: "violated" in l)
        if rv.ok:
            raise ToolError("vacuity: no deterministic accepted input with n,m >= 2 reachable in the model")
        # ---- GEN: one vector per abstract input with the model's prediction
        gne, gnl = (3, 3)
        cfg = _cfg(work, "GEN.cfg", gne, gnl, "INVARIANTS Emit")
        res = tlc("MC_DiffAlgo", cfg, work, workers=min(NCPU, 8), timeout=1200,
                  line_filter=lambda l: l.startswith('<<"REPLAY"') or l.startswith("Error"))
        tlc_must_pass(res, "DiffAlgo GEN")
        vectors = [json.loads(f[0]) for f in res.printed("REPLAY")]
        vectors.sort(key=lambda v: json.dumps(v, sort_keys=True))
        vpath = os.path.join(work, "vectors.ndjson")
        write_ndjson(vpath, vectors)
        log(f"GEN: {len(vectors)} vectors ({gne}x{gnl}) from TLC")
        # ---- replay into the real code
        rpath = os.path.join(work, "records.ndjson")
        spath = os.path.join(work, "steps.ndjson")
        seeds = [s] if tier == "quick" else [s, s + 1, s + 2]
        records = []
        for sd in seeds:
            harness(["diff-replay", "--vectors", vpath, "--records", rpath, "--steps", spath, "--steps-every",
                     "20" if tier == "quick" else "5", "--seed", sd])
            rs = read_ndjson(rpath)
            for r in rs:
                r["src"] = f"gen seed={sd}"
            records += rs
        n_gen = len(records)
        # ---- probes beyond the bound
        ppath = os.path.join(work, "probe.ndjson")
        count = 6000 if tier == "quick" else 150000
        harness(["diff-probe", "--count", count, "--records", ppath, "--seed", s, "--max-n", 8, "--max-m", 14])
        pr = read_ndjson(ppath)
        for r in pr:
            r["src"] = f"probe seed={s}"
            r["id"] = r["id"] + 10_000_000
        records += pr
        log(f"replay: {n_gen} records from TLC vectors, {len(pr)} random probes (n<=8, m<=14)")
        bounds = f"MC {cov['mc_bounds']}; replay of all {len(vectors)} 3x3 vectors x (with/without final newline) x {len(seeds)} concretisation seed(s); {len(pr)} random probes"
        # ---- VAL(A): step events are steps of the (A) machine
        steps = read_ndjson(spath)
        if steps:
            rs_ = tlc("DiffStepTrace", "DiffStepTrace.cfg", work, workers=1, env={"TRACE": spath}, depth_first=True,
                      timeout=1200, line_filter=lambda l: l.startswith("<<") or l.startswith("Error") or "violated" in l)
            cov["step_events_validated"] = rs_.depth - 1 if rs_.depth else 0
            cov["step_events_total"] = len(steps)
            if not rs_.ok:
                d = rs_.printed("DRIFT")
                V.add_drift(f"step trace rejected at event {d[0][0] if d else '?'}: {d[0][1][:200] if d else rs_.error}")
        drift_out = [r for r in records if not r.get("model_out_eq", True)]
        if drift_out:
            V.add_drift(f"{len(drift_out)} results differ from the (A) model's predicted result, e.g. id={drift_out[0]['id']}")
        cov["drift"] = len(V.drift)

    # ---- VAL(P): TLC evaluates the property predicates on every implementation record
    byid = {r["id"]: r for r in records}
    results, printed = tlc_validate_sharded("DiffTrace", "DiffTrace.cfg", records, work,
                                            shards=min(NCPU, 12), slim=slim, tags=("VERDICT", "NONTRIVIAL"))
    for r in results:
        tlc_must_pass(r, "DiffTrace VAL")
    validated = sum(r.distinct - 1 for r in results)
    if validated != len(records):
        raise ToolError(f"trace validation consumed {validated} of {len(records)} records")
    nontrivial = {f[1] for f in printed["NONTRIVIAL"]}
    for p, rid in printed["VERDICT"]:
        if p != prop:
            continue
        r = byid[rid]
        key = f"q={''.join(r['q'])};M={json.dumps(r['M'], separators=(',', ':'))};nl={int(r.get('final_newline', True))}"
        if r["panic"] or r["hang"]:
            key = ("panic:" if r["panic"] else "hang:") + key
        V.violation(key, WHAT[prop], {"job": r.get("job"), "expectations": r.get("exps"), "output": r.get("output"),
                                      "observed_out": r["out"], "has_differences": r["hd"],
                                      "validate_stdout": r["val_out"], "validate_stderr": r["val_err"],
                                      "error": r["err"], "source": r.get("src")})
    other = sum(1 for p, _ in printed["VERDICT"] if p != prop)
    code, nviol, known = V.finish()
    sample = [{k: r[k] for k in ("exps", "output", "out", "hd", "val_out")} for r in records
              if r["id"] in nontrivial][:3] + [{k: r[k] for k in ("exps", "output", "out", "hd", "val_out")} for r in records[-2:]]
    cov.update({
        "states": mc_states, "transitions": mc_trans,
        "traces_validated_against_impl": validated,
        "samples": sample,
        "evaluations": len(records),
        "distinct_nontrivial": len({json.dumps([r["q"], r["M"], r["out"]]) for r in records if r["n"] >= 1 and r["m"] >= 1}),
        "rule": "one record per (abstract input, final-newline variant, concretisation); non-trivial = at least one expectation and one line; distinct by (q, realised matrix, result)",
        "deterministic_accepting_records": len(nontrivial),
        "bounds": bounds,
        "verdict_lines_for_sibling_properties": other,
        "known_findings_seen": known,
        "build_s": round(build_s, 1),
        "exhaustive": False,
    })
    if not replay:
      write_evidence(prop, tier, "model_checking", cov,
                   ["TLC 1.8 evaluates the predicates correctly", "the match-matrix abstraction is exact because diff() consults rules only via Expectation::matches (the realised matrix is recomputed from the real rules for every record)",
                    "rule engines (regex, wildmatch) are only observed on the concrete lines used"],
                   time.time() - t0, nviol)
    log(f"{prop}: {validated} implementation records validated by TLC, {nviol} violation(s), drift={len(V.drift)}, {time.time()-t0:.0f}s")
    return code

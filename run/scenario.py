"""Materialise a TestCommand scenario (specs/TestCommand.tla) as real documents, run the real scrut
binary on it in a private scratch root, and project what happened onto the spec's observation.

Nothing here judges a property: the observation is judged by TLC (specs/TestCommandTrace.tla)."""
import json
import os
import re
import shutil
import signal
import subprocess
import tempfile
import time

import lib
from lib import SCRUT_BIN

NONE = -1


def _dur(v):
    return f"{v}s"


def command_of(tc, fmt):
    parts = [f'echo {tc["id"]} >> "$RUN_LOG"']
    if tc["beh"] == "noterm":
        parts.insert(0, "trap '' TERM")       # the shell ignores SIGTERM: only SIGKILL ends it
    if tc.get("sab"):
        # the carrier's state file becomes a directory: the EXIT trap can no longer write it (Markdown documents only)
        parts.append('for __d in "$TMPDIR"/.state.*; do rm -rf "$__d/state"; mkdir -p "$__d/state"; done')
    if tc["dur"] > 0:
        # the late marker shows whether a command that ran into a limit was really aborted
        parts.append(f'sleep {tc["dur"]}')
        parts.append(f'echo late-{tc["id"]} >> "$RUN_LOG"')
    if tc["out"] == "bigutf8":
        parts.append("printf '\\303\\274%.0s' $(seq 1 3000); echo")      # 6000 bytes of u-umlaut, one line
    if tc["out"] in ("stdout", "both"):
        parts.append(f"printf 'o-{tc['id']}\\n'")
    if tc["out"] in ("stderr", "both"):
        parts.append(f"printf 'e-{tc['id']}\\n' >&2")
    if tc["beh"] == "signal":
        parts.append("kill -9 $$")
    elif tc["beh"] == "exitscript":
        parts.append(f"exit {tc['code']}")
    elif tc["code"] != 0:
        parts.append(f"exit {tc['code']}" if fmt == "md" else f"(exit {tc['code']})")
    return "; ".join(parts)


def stream_lines(tc):
    o, e = f"o-{tc['id']}", f"e-{tc['id']}"
    has_o, has_e = tc["out"] in ("stdout", "both"), tc["out"] in ("stderr", "both")
    if tc["stream"] == "stdout":
        return [o] if has_o else []
    if tc["stream"] == "stderr":
        return [e] if has_e else []
    return ([o] if has_o else []) + ([e] if has_e else [])


def expectation_lines(tc):
    s = stream_lines(tc)
    if tc["expect"] == "match":
        return s
    if tc["expect"] == "mismatch":
        return s + [f"NOPE-{tc['id']}"]
    return []


def md_block(tc, compat=False, doc_stream=False):
    cfg = []
    if tc["t"] != NONE:
        cfg.append(f"timeout: {_dur(tc['t'])}")
    if tc["det"]:
        cfg.append("detached: true")
    if tc.get("wait", 0) > 0:
        cfg.append(f"wait: {_dur(tc['wait'])}")
    if tc["skip"] != NONE:
        cfg.append(f"skip_document_code: {tc['skip']}")
    # the stream is written inline when it is not the format default -- or always (also a plain `stdout`) in a document
    # that has defaults.output_stream, unless this test case takes its stream from there (sinline = false)
    if tc.get("sinline", True) and (tc["stream"] != "stdout" or doc_stream):
        cfg.append(f"output_stream: {tc['stream']}")
    info = "scrut" + (" {" + ", ".join(cfg) + "}" if cfg else "")
    lines = [f"# {tc['id']}", "", f"```{info}", f"$ {command_of(tc, 'cram' if compat else 'md')}"] + expectation_lines(tc)
    if tc["exp"] != NONE:
        lines.append(f"[{tc['exp']}]")
    lines += ["```", ""]
    return lines


def cram_block(tc):
    lines = [tc["id"], "", f"  $ {command_of(tc, 'cram')}"] + ["  " + l for l in expectation_lines(tc)]
    if tc["exp"] != NONE:
        lines.append(f"  [{tc['exp']}]")
    lines.append("")
    return lines


def render_doc(doc, tests, front=None, compat=False):
    if doc["fault"] == "unreadable":
        return b"\xff\xfe# not utf-8 \xc3\x28\n"
    if doc["fault"] == "unparsable":
        return b"# broken\n\n```scrut\nan expectation without any command\n```\n"
    out = []
    if doc["fmt"] == "md":
        fm = list(front or [])
        if doc["tfm"] != NONE:
            fm.append(f"total_timeout: {_dur(doc['tfm'])}")
        defs = []
        if doc["skipdef"] != NONE:
            defs.append(f"  skip_document_code: {doc['skipdef']}")
        if doc.get("tdef", NONE) != NONE:
            defs.append(f"  timeout: {_dur(doc['tdef'])}")
        if doc.get("sdef", "unset") != "unset":
            defs.append(f"  output_stream: {doc['sdef']}")
        if defs:
            fm += ["defaults:"] + defs
        if fm:
            out += ["---"] + fm + ["---", ""]
        for tc in tests:
            out += md_block(tc, compat, doc_stream=doc.get("sdef", "unset") != "unset")
    else:
        for tc in tests:
            out += cram_block(tc)
    return ("\n".join(out) + "\n").encode()


def materialise(sc, root):
    """writes the documents; returns (argv tail, list of main doc paths)"""
    docs_dir = os.path.join(root, "docs")
    os.makedirs(docs_dir, exist_ok=True)
    # shared documents have the format of the documents they are added to (scenario families guarantee
    # that all main documents have one format whenever shared documents exist)
    sfmt = sc["docs"][0]["fmt"] if sc["docs"] else "md"
    sext = "md" if sfmt == "md" else "t"
    shared_doc = {"fmt": sfmt, "tfm": NONE, "skipdef": NONE, "fault": "no"}
    # rel: the shared documents live in <cwd>/shared and are named relative to the current directory; like-named decoys
    # (whose commands log an id no scenario knows) lie where a path wrongly resolved against the document's directory points
    shared_dir = os.path.join(root, "shared") if sc.get("rel") else docs_dir
    if sc.get("rel"):
        os.makedirs(shared_dir, exist_ok=True)
        os.makedirs(os.path.join(docs_dir, "shared"), exist_ok=True)
        for nm in ("p1", "a1"):
            decoy = dict(sc["docs"][0]["tests"][0], id="decoy-" + nm, beh="exit", code=0, exp=NONE, det=False, dur=0)
            with open(os.path.join(docs_dir, "shared", nm + "." + sext), "wb") as f:
                f.write(render_doc(shared_doc, [decoy], compat=sc.get("compat", False)))
    if sc["pre"]:
        with open(os.path.join(shared_dir, "p1." + sext), "wb") as f:
            f.write(render_doc(shared_doc, sc["pre"], compat=sc.get("compat", False)))
    if sc["app"]:
        with open(os.path.join(shared_dir, "a1." + sext), "wb") as f:
            f.write(render_doc(shared_doc, sc["app"], compat=sc.get("compat", False)))
    if sc["via"] == "fm2":
        for nm, tcs in (("p2", sc.get("pre2", [])), ("a2", sc.get("app2", []))):
            if tcs:
                with open(os.path.join(shared_dir, nm + "." + sext), "wb") as f:
                    f.write(render_doc(shared_doc, tcs, compat=sc.get("compat", False)))
    paths = []
    for i, doc in enumerate(sc["docs"]):
        front = []
        if sc["via"] in ("fm", "fm2") and i == 0 and doc["fmt"] == "md":
            if sc["pre"]:
                front.append("prepend: [p1.md]")
            if sc["app"]:
                front.append("append: [a1.md]")
        if sc["via"] == "fm2" and i == 1 and doc["fmt"] == "md":
            if sc.get("pre2"):
                front.append("prepend: [p2.md]")
            if sc.get("app2"):
                front.append("append: [a2.md]")
        # names are chosen so that the order given on the command line is NOT the lexicographic order
        name = f"{'zyxw'[i]}-d{i + 1}." + ("md" if doc["fmt"] == "md" else "t")
        if doc["fault"] == "nomatch":
            name += ".txt"      # a file that is no test document by its name
        # with a directory argument the last document lives in a nested directory
        sub = os.path.join(docs_dir, "nested", "deeper") if sc.get("dirarg") and i == len(sc["docs"]) - 1 and i > 0 else docs_dir
        if sub != docs_dir and len(sc["docs"]) == 3:
            # with three documents the nested directory is reached through a symbolic link to a directory outside
            outside = os.path.join(root, "outside")
            os.makedirs(os.path.join(outside, "deeper"), exist_ok=True)
            if not os.path.islink(os.path.join(docs_dir, "nested")):
                os.symlink(outside, os.path.join(docs_dir, "nested"))
        os.makedirs(sub, exist_ok=True)
        path = os.path.join(sub, name)
        if doc["fault"] != "missing":
            with open(path, "wb") as f:
                f.write(render_doc(doc, doc["tests"], front, compat=sc.get("compat", False)))
        paths.append(path)
    argv = list(paths)
    if sc.get("dirarg"):
        # files that are no test documents must be ignored
        for decoy, text in (("README.txt", "not a test\n"), ("notes.rst", "$ echo no\n"), ("script.sh", "exit 3\n")):
            with open(os.path.join(docs_dir, decoy), "w") as f:
                f.write(text)
        argv = [docs_dir]
    if sc["tcli"] != NONE:
        argv += ["--timeout-seconds", str(sc["tcli"])]
    if sc.get("compat"):
        argv += ["--cram-compat"]
    if sc["noshell"]:
        argv += ["--shell", os.path.join(root, "no-such-shell")]
    if sc["via"] == "cli":
        if sc["pre"]:
            argv += ["-P", os.path.join("shared", "p1." + sext) if sc.get("rel") else os.path.join(docs_dir, "p1." + sext)]
        if sc["app"]:
            argv += ["-A", os.path.join("shared", "a1." + sext) if sc.get("rel") else os.path.join(docs_dir, "a1." + sext)]
    return argv, paths


def shared_applies(sc, i):
    # front-matter prepend/append only exists for Markdown documents
    if sc["via"] == "cli":
        return True
    if sc["via"] == "fm2" and i == 1:
        return sc["docs"][1]["fmt"] == "md"
    return i == 0 and sc["docs"][0]["fmt"] == "md"


def shared_of(sc, i):
    """(prepend test cases, append test cases) that belong to document i"""
    if sc["via"] == "fm2" and i == 1:
        return sc.get("pre2", []), sc.get("app2", [])
    return sc["pre"], sc["app"]


def assembled(sc, i):
    if sc["docs"][i]["fault"] == "nomatch":
        return []
    sh = shared_applies(sc, i)
    pre, app = shared_of(sc, i)
    return (pre if sh else []) + sc["docs"][i]["tests"] + (app if sh else [])


def run_scrut(argv, root, renderer="json", extra_env=None, timeout=120):
    """run the real binary in its own session; returns (exit, stdout bytes, stderr bytes, wall seconds)"""
    env = dict(os.environ)
    tmp = os.path.join(root, "tmp")
    os.makedirs(tmp, exist_ok=True)
    env.update({"TMPDIR": tmp, "RUN_LOG": os.path.join(root, "run.log"), "NO_COLOR": "1",
                "SCRUT_VERIF_TRACE": os.path.join(root, "trace.ndjson")})
    if extra_env:
        env.update(extra_env)
    cmd = [SCRUT_BIN, "test", "--no-color", "-r", renderer] + argv
    t0 = time.time()
    p = subprocess.Popen(cmd, cwd=root, env=env, stdout=subprocess.PIPE, stderr=subprocess.PIPE,
                         start_new_session=True)
    try:
        out, err = p.communicate(timeout=timeout)
        code = p.returncode
    except subprocess.TimeoutExpired:
        os.killpg(p.pid, signal.SIGKILL)
        out, err = p.communicate()
        code = -999
    wall = time.time() - t0
    return code, out, err, wall, p.pid


def kill_group(pid):
    try:
        os.killpg(pid, signal.SIGKILL)
    except (ProcessLookupError, PermissionError):
        pass


def observe(sc, want_summary=False, keep=False):
    """materialise + run + project. Returns the observation record (json-able)."""
    root = tempfile.mkdtemp(prefix="scrut-verif-", dir=os.environ.get("VERIF_SCRATCH", "/tmp"))
    try:
        argv, paths = materialise(sc, root)
        code, out, err, wall, pid = run_scrut(argv, root)
        pid_main = pid
        # give detached commands a moment to write their marker, then make sure nothing survives
        if any(tc["det"] for i in range(len(sc["docs"])) for tc in assembled(sc, i)):
            time.sleep(0.4)
        log_path = os.path.join(root, "run.log")
        slowest = max([tc["dur"] for i in range(len(sc["docs"])) for tc in assembled(sc, i)] + [0])
        if slowest > 0 and wall < slowest + 0.6 and b'"timeout"' in out:
            time.sleep(slowest + 0.6 - wall)     # let a command that was not aborted reach its late marker
        ran_raw = open(log_path).read().split() if os.path.exists(log_path) else []
        late_all = [x[5:] for x in ran_raw if x.startswith("late-")]
        ran_all = [x for x in ran_raw if not x.startswith("late-")]
        outcomes = None
        try:
            outcomes = json.loads(out.decode("utf-8", "replace")) if out.strip() else None
        except ValueError:
            outcomes = None
        nd = len(sc["docs"])
        res, ran, dupes = [], [], 0
        by_loc = {}
        if isinstance(outcomes, list) and outcomes and not any(isinstance(oc, dict) and isinstance(oc.get("result"), dict) and "kind" in oc["result"]
                                                               and ("location" in oc) for oc in outcomes):
            # the structured rendering no longer has the shape this runner reads (`location`, `result.kind`): that is a
            # matter of the machinery, not a verdict about scrut
            raise lib.ToolError("the json rendering has no entries with `location` and `result.kind`: the scenario runner cannot read results")
        if isinstance(outcomes, list):
            for oc in outcomes:
                loc = oc.get("location", "")
                title = oc.get("title") if "title" in oc else oc.get("testcase", {}).get("title", "")
                kind = oc.get("result", {}).get("kind", "?")
                by_loc.setdefault(loc, []).append((title, kind))
        known_locs = set(paths)
        dupes += sum(len(v) for loc, v in by_loc.items() if loc not in known_locs)
        # detached commands write their marker whenever they get to it (possibly in the middle of the next document's
        # commands): they are taken out of the ordered log first; running one twice is still counted
        det_all = {tc["id"] for i in range(nd) for tc in assembled(sc, i) if tc["det"]}
        det_seen = [x for x in ran_all if x in det_all]
        dupes += len(det_seen) - len(set(det_seen))
        ran_all = [x for x in ran_all if x not in det_all]
        # split the run log into documents: commands of document i are the i-th segment in order
        pos = 0
        for i in range(nd):
            A = assembled(sc, i)
            ids = [tc["id"] for tc in A]
            det_ids = {tc["id"] for tc in A if tc["det"]}
            got = by_loc.get(paths[i], [])
            kinds = {}
            for title, kind in got:
                if title in kinds or title not in ids:
                    dupes += 1
                kinds[title] = kind
            res.append([kinds.get(x, "none") for x in ids])
            # the segment of the log that belongs to this document: greedy while ids belong to it
            seg = []
            if sc.get("dirarg"):
                # the order among the documents of a directory is unspecified: attribute log entries by their ids
                seg = [x for x in ran_all if x in ids]
                dupes += len(seg) - len(set(seg))
                ran.append([x for x in seg if x not in det_ids])
                pos = len(ran_all) if i == nd - 1 else pos
                continue
            while pos < len(ran_all) and ran_all[pos] in ids and ran_all[pos] not in seg:
                seg.append(ran_all[pos])
                pos += 1
            ran.append([x for x in seg if x not in det_ids])
        leftover = ran_all[pos:]
        dupes += len(leftover)
        obs = {"res": res, "ran": ran, "exit": code, "aborted": code == 1, "dupes": dupes, "sumok": True,
               "wall_s": round(wall, 2), "stderr_tail": err.decode("utf-8", "replace")[-400:],
               "json_ok": isinstance(outcomes, list)}
        # wall-clock check per document (C14): only meaningful for single-document scenarios
        obs["wall_doc"] = [round(wall, 2)] * nd
        # late markers of documents in which a timeout was reported: the command went on after the "abort"
        # (per-process executor: only the command that was reported as timed out is meant -- an earlier slow command that
        # stayed inside its limits reaches its end legitimately; single-script executor: no attribution, any command)
        def late_of(i):
            A = assembled(sc, i)
            script = sc["docs"][i]["fmt"] == "cram" or sc.get("compat")
            timed = {tc["id"] for x, tc in enumerate(A) if script or (x < len(res[i]) and res[i][x] == "timeout")}
            return [x for x in late_all if x in timed]
        obs["late"] = [late_of(i) if "timeout" in res[i] else [] for i in range(nd)]
        if want_summary:
            code2, out2, err2, _w, pid2 = run_scrut(argv, root, renderer="pretty",
                                                   extra_env={"RUN_LOG": os.path.join(root, "run2.log")})
            kill_group(pid2)
            m = re.search(r"Result: (\d+) document\(s\) with (\d+) testcase\(s\): (\d+) succeeded, (\d+) failed and (\d+) skipped",
                          out2.decode("utf-8", "replace"))
            if m and isinstance(outcomes, list) and code2 == code:
                docs_n, tests_n, ok, failed, skipped = map(int, m.groups())
                flat = [k for r in res for k in r if k != "none"]
                obs["summary"] = [docs_n, tests_n, ok, failed, skipped]
                obs["sumok"] = (ok + failed + skipped == tests_n == len(flat)
                                and ok == sum(1 for k in flat if k == "success")
                                and skipped == sum(1 for k in flat if k == "skipped"))
            elif code2 != code:
                obs["sumok"] = False
                obs["summary"] = f"exit status differs between renderers: json {code}, pretty {code2}"
        # step events of hooks H2 / H3 (the matcher's H1 events in the same file are not used here)
        tpath = os.path.join(root, "trace.ndjson")
        events = []
        if os.path.exists(tpath):
            for line in open(tpath, errors="replace"):
                if '"ev":"DocStart"' in line or '"ev":"PickLimit"' in line or '"ev":"ExecEnd"' in line:
                    try:
                        e = json.loads(line)
                        if e.get("pid") == pid_main:
                            events.append(e)
                    except ValueError:
                        pass
        obs["events"] = events
        kill_group(pid)
        if keep:
            obs["root"] = root
        return obs
    finally:
        if not keep:
            shutil.rmtree(root, ignore_errors=True)

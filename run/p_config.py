"""C16 — ConfigLayers: TLC proves precedence / associativity / identity / list accumulation on the layering model and
enumerates layer assignments; the real merge functions are applied in the call order of the three sites, and the real
binary is run on materialised documents + flags for the observable keys; TLC judges every record."""
import concurrent.futures
import json
import os
import shutil
import subprocess
import tempfile
import time

import scenario
import lib
from lib import *

WHAT = "the value in effect is not the one from the highest-precedence layer that sets it (or layering is not associative / empty layer not neutral / lists do not accumulate in order)"
KEYS = ["output_stream", "keep_crlf", "timeout", "detached", "skip_document_code", "strip_ansi_escaping", "wait"]


def highest(vals):
    for v in vals:
        if v != "U":
            return v
    return "U"


def e2e_case(rec):
    """returns (front_matter_lines, inline_cfg, cli_flags, command, expectation_lines) or None if not observable end to end"""
    cli, tc, doc, fmt = rec["cli"], rec["tc"], rec["doc"], rec["fmt"]
    sc = lambda l, k: l["scalar"][k]
    set_keys = {k for k in KEYS for l in (cli, tc, doc, fmt) if sc(l, k) != "U"}
    env_set = any(l["env"][e] != "U" for l in (cli, tc, doc, fmt) for e in ("X", "Y"))
    if env_set and not set_keys and all(fmt["env"][e] == "U" and cli["env"][e] == "U" for e in ("X", "Y")):
        # (value B of the variable Y is the EMPTY string: set, but empty - the command tells that from "not set")
        val = lambda e, v: "unset" if v == "U" else "" if (e, v) == ("Y", "B") else f"{e}-{'a' if v == 'A' else 'b'}-val"
        fm = []
        if any(doc["env"][e] != "U" for e in ("X", "Y")):
            fm = ["defaults:", "  environment:"] + [f'    {e}: "{val(e, doc["env"][e])}"' for e in ("X", "Y") if doc["env"][e] != "U"]
        inline = ""
        if any(tc["env"][e] != "U" for e in ("X", "Y")):
            inline = "{environment: {" + ", ".join(f'{e}: "{val(e, tc["env"][e])}"' for e in ("X", "Y") if tc["env"][e] != "U") + "}}"
        eff = {e: highest([cli["env"][e], tc["env"][e], doc["env"][e], fmt["env"][e]]) for e in ("X", "Y")}
        return fm, inline, [], "printf 'X=%s Y=%s\\n' \"${X-unset}\" \"${Y-unset}\"", [f"X={val('X', eff['X'])} Y={val('Y', eff['Y'])}"], 0
    # two flags at once (only the command line layer): they must not cancel each other
    if not env_set and set_keys == {"output_stream", "keep_crlf"} and all(sc(l, k2) == "U" for l in (tc, doc, fmt) for k2 in set_keys) \
            and sc(cli, "output_stream") == "B":
        crlf = sc(cli, "keep_crlf")
        flags = ["--combine-output"] + {"A": ["--keep-output-crlf"], "B": ["--no-keep-output-crlf"]}[crlf]
        exp = ["o\\r (escaped)", "e\\r (escaped)"] if crlf == "A" else ["o", "e"]
        return [], "", flags, "printf 'o\\r\\n'; printf 'e\\r\\n' >&2", exp, 0
    # a second, harmless key (timeout: 6s) in the inline configuration and / or the document defaults, next to the key
    # under test in the same or another layer: the layers must be merged key by key
    if not env_set and len(set_keys) == 2 and "timeout" in set_keys and all(sc(l, "timeout") == "U" for l in (cli, fmt)) \
            and all(sc(l, "timeout") in ("U", "B") for l in (tc, doc)):
        import copy
        rec2 = copy.deepcopy(rec)
        for l in ("tc", "doc"):
            rec2[l]["scalar"]["timeout"] = "U"
        base = e2e_case(rec2)
        if base is None:
            return None
        fm, inline, flags, command, exp, want = base
        if "--cram-compat" in flags:
            return None          # (the single-script executor refuses per-test timeouts)
        if sc(doc, "timeout") == "B":
            fm = (fm or ["defaults:"]) + ["  timeout: 6s"]
        if sc(tc, "timeout") == "B":
            inline = (inline[:-1] + ", timeout: 6s}") if inline else "{timeout: 6s}"
        return fm, inline, flags, command, exp, want
    if env_set or len(set_keys) != 1:
        return None
    k = next(iter(set_keys))
    # the format layer can be realised by --cram-compat on a Markdown document: combined output, CRLF kept
    compat = []
    if sc(fmt, k) != "U":
        if (k, sc(fmt, k)) in (("output_stream", "B"), ("keep_crlf", "A")):
            compat = ["--cram-compat"]
        else:
            return None
    eff = highest([sc(cli, k), sc(tc, k), sc(doc, k), sc(fmt, k)])
    if k == "output_stream":
        if sc(cli, k) == "A":
            return None          # the command line can only choose stdout or combined
        name = {"A": "stderr", "B": "combined"}
        fm = ["defaults:", f"  output_stream: {name[sc(doc, k)]}"] if sc(doc, k) != "U" else []
        inline = "{output_stream: %s}" % name[sc(tc, k)] if sc(tc, k) != "U" else ""
        flags = (["--combine-output"] if sc(cli, k) == "B" else []) + compat
        exp = {"U": ["o"], "A": ["e"], "B": ["o", "e"]}[eff]
        return fm, inline, flags, "printf 'o\\n'; printf 'e\\n' >&2", exp, 0
    if k == "keep_crlf":
        name = {"A": "true", "B": "false"}
        fm = ["defaults:", f"  keep_crlf: {name[sc(doc, k)]}"] if sc(doc, k) != "U" else []
        inline = "{keep_crlf: %s}" % name[sc(tc, k)] if sc(tc, k) != "U" else ""
        flags = {"A": ["--keep-output-crlf"], "B": ["--no-keep-output-crlf"], "U": []}[sc(cli, k)] + compat
        exp = ["a\\r (escaped)"] if eff == "A" else ["a"]
        return fm, inline, flags, "printf 'a\\r\\n'", exp, 0
    # keys that only the test case and the document defaults can set (no flag, no format default to realise)
    if sc(cli, k) != "U" or sc(fmt, k) != "U":
        return None
    def two_layers(key, name):
        fm = ["defaults:", f"  {key}: {name[sc(doc, k)]}"] if sc(doc, k) != "U" else []
        inline = "{%s: %s}" % (key, name[sc(tc, k)]) if sc(tc, k) != "U" else ""
        return fm, inline
    if k == "strip_ansi_escaping":
        fm, inline = two_layers(k, {"A": "true", "B": "false"})
        return fm, inline, [], "printf 'a\\033[1mb\\n'", (["ab"] if eff == "A" else ["a\\x1b[1mb (escaped)"]), 0
    if k == "skip_document_code":
        # the command exits with the code IN EFFECT and its expectation does not match: only a skip makes the run succeed
        fm, inline = two_layers(k, {"A": "7", "B": "9"})
        return fm, inline, [], "exit " + {"A": "7", "B": "9", "U": "80"}[eff], ["NOT-THE-OUTPUT"], 0
    if k == "timeout":
        # 1 s or 6 s against a command of 2.5 s
        fm, inline = two_layers(k, {"A": "1s", "B": "6s"})
        return fm, inline, [], "sleep 2.5; echo done", ["done"], (50 if eff == "A" else 0)
    return None


def run_e2e(rec):
    case = e2e_case(rec)
    if case is None:
        return "skip"
    fm, inline, flags, command, exp, want_exit = case
    root = tempfile.mkdtemp(prefix="scrut-verif-cfg-", dir=os.environ.get("VERIF_SCRATCH", "/tmp"))
    try:
        lines = (["---"] + fm + ["---", ""] if fm else []) + ["# t", "", "```scrut" + (" " + inline if inline else ""), "$ " + command] + exp + ["```", ""]
        os.makedirs(os.path.join(root, "docs"))
        path = os.path.join(root, "docs", "doc.md")
        with open(path, "w") as f:
            f.write("\n".join(lines))
        code, out, err, wall, pid = scenario.run_scrut([path] + flags, root)
        scenario.kill_group(pid)
        if code != want_exit:
            return f"fail(exit {code}, expected {want_exit})"
        if len(flags) == 2 and "--cram-compat" not in flags:
            # the order in which two flags are given does not matter
            code2, out2, err2, wall2, pid2 = scenario.run_scrut([path] + flags[::-1], root)
            scenario.kill_group(pid2)
            if code2 != want_exit:
                return f"fail(exit {code2} with the flags in the other order, expected {want_exit})"
        if want_exit != 0:
            return "ok"
        # the same layers must be in effect in `scrut update`: a document that passes `scrut test <flags>` is left as it is
        before = open(path).read()
        env = dict(os.environ, TMPDIR=os.path.join(root, "tmp-upd"), NO_COLOR="1")
        env.pop("SCRUT_VERIF_TRACE", None)
        os.makedirs(env["TMPDIR"], exist_ok=True)
        u = subprocess.run([SCRUT_BIN, "update", "--no-color", "--replace", "--assume-yes", path] + flags, cwd=root, env=env,
                           stdin=subprocess.DEVNULL, stdout=subprocess.PIPE, stderr=subprocess.PIPE, timeout=120)
        if u.returncode != 0:
            return f"fail(update exit {u.returncode})"
        if open(path).read() != before:
            return "fail(update rewrote a document that passes test with the same flags)"
        # the command line layer alone: `scrut create <flags>` must record the command under the flags' values, i.e. write
        # exactly these expectation lines (and a document that passes when it is tested without any flag)
        if not fm and not inline and flags and "--cram-compat" not in flags:
            created = os.path.join(root, "docs", "created.md")
            c = subprocess.run([SCRUT_BIN, "create", "--no-color", "--format", "markdown", "-o", created] + flags + ["--", command], cwd=root, env=env,
                               stdin=subprocess.DEVNULL, stdout=subprocess.PIPE, stderr=subprocess.PIPE, timeout=120)
            if c.returncode != 0 or not os.path.exists(created):
                return f"fail(create exit {c.returncode})"
            # (the spelling of the marker - `(esc)` or `(escaped)` - is not what this leg is about)
            norm = lambda l: l[:-len(" (esc)")] + " (escaped)" if l.endswith(" (esc)") else l
            body = [norm(l) for l in open(created).read().split("\n")]
            if any(norm(e) not in body for e in exp):
                return "fail(create did not record the command under the flags given: " + repr(open(created).read()[-160:]) + ")"
            t = subprocess.run([SCRUT_BIN, "test", "--no-color", created], cwd=root, env=env, stdin=subprocess.DEVNULL, stdout=subprocess.PIPE, stderr=subprocess.PIPE, timeout=120)
            if t.returncode != 0:
                return f"fail(created document does not pass: exit {t.returncode})"
        return "ok"
    finally:
        shutil.rmtree(root, ignore_errors=True)


def leak_family():
    """the assignment in which NO layer sets anything: the test case under test runs with the format defaults although the test
    case before it sets a key inline (one document per key; the second test case's command is sensitive to that key)"""
    docs = {
        "keep_crlf": ("{keep_crlf: true}", "printf 'a\\r\\n'", ["a\\r (escaped)"], "printf 'a\\r\\n'", ["a"]),
        "strip_ansi_escaping": ("{strip_ansi_escaping: true}", "printf 'a\\033[1mb\\n'", ["ab"], "printf 'a\\033[1mb\\n'", ["a\\x1b[1mb (escaped)"]),
        "output_stream": ("{output_stream: combined}", "printf 'o\\n'; printf 'e\\n' >&2", ["o", "e"], "printf 'o\\n'; printf 'e\\n' >&2", ["o"]),
        "environment": ('{environment: {X: "X-n-val"}}', "printf 'X=%s\\n' \"$X\"", ["X=X-n-val"], "printf 'Z=%s\\n' \"$Z\"", ["Z="]),
        # (the second test case exits with the DEFAULT skip code and its expectation does not match: only a skip lets the run succeed)
        "skip_document_code": ("{skip_document_code: 7}", "true", [], "exit 80", ["NOT-THE-OUTPUT"]),
    }
    bad = []
    for key, (inline, cmd1, exp1, cmd2, exp2) in docs.items():
        root = tempfile.mkdtemp(prefix="scrut-verif-cfglk-", dir=os.environ.get("VERIF_SCRATCH", "/tmp"))
        try:
            lines = ["# first", "", "```scrut " + inline, "$ " + cmd1] + exp1 + ["```", "", "# second", "", "```scrut", "$ " + cmd2] + exp2 + ["```", ""]
            os.makedirs(os.path.join(root, "docs"))
            path = os.path.join(root, "docs", "doc.md")
            with open(path, "w") as f:
                f.write("\n".join(lines))
            code, out, err, wall, pid = scenario.run_scrut([path], root)
            scenario.kill_group(pid)
            if code != 0:
                bad.append(f"{key} set inline by the test case before: exit {code}, expected 0")
        finally:
            shutil.rmtree(root, ignore_errors=True)
    return "ok" if not bad else "fail(" + "; ".join(bad) + ")"


def run_e2e_nb(rec):
    """NeighbourIndependent (specs/ConfigLayers.tla): the environment in effect for a test case is a function of ITS layers.
    The test case under test is the SECOND of its document; the first one either has no inline configuration (it runs with
    the document defaults) or configures every variable that is in effect for the second one with another value. Only the
    second test case is judged (the first one's output is matched by a glob)."""
    cli, tc, doc, fmt = rec["cli"], rec["tc"], rec["doc"], rec["fmt"]
    if all(l["scalar"][k] == "U" for l in (cli, tc, doc, fmt) for k in KEYS) and all(l["env"][e] == "U" for l in (cli, tc, doc, fmt) for e in ("X", "Y")):
        return leak_family()
    case = e2e_case(rec)
    if case is None or not any(l["env"][e] != "U" for l in (tc, doc) for e in ("X", "Y")) \
            or any(l["scalar"][k] != "U" for l in (cli, tc, doc, fmt) for k in KEYS):
        return "skip"
    fm, inline, flags, command, exp, want_exit = case
    eff = {e: highest([cli["env"][e], tc["env"][e], doc["env"][e], fmt["env"][e]]) for e in ("X", "Y")}
    bad = []
    for kind in ("plain", "inline"):
        nb_inline = ""
        if kind == "inline":
            nb_inline = " {environment: {" + ", ".join(f'{e}: "{e}-n-val"' for e in ("X", "Y") if eff[e] != "U") + "}}"
        root = tempfile.mkdtemp(prefix="scrut-verif-cfgnb-", dir=os.environ.get("VERIF_SCRATCH", "/tmp"))
        try:
            lines = (["---"] + fm + ["---", ""] if fm else []) \
                + ["# neighbour", "", "```scrut" + nb_inline, "$ " + command, "X=* Y=* (glob)", "```", ""] \
                + ["# t", "", "```scrut" + (" " + inline if inline else ""), "$ " + command] + exp + ["```", ""]
            os.makedirs(os.path.join(root, "docs"))
            path = os.path.join(root, "docs", "doc.md")
            with open(path, "w") as f:
                f.write("\n".join(lines))
            code, out, err, wall, pid = scenario.run_scrut([path] + flags, root)
            scenario.kill_group(pid)
            if code != want_exit:
                bad.append(f"after a test case {'with another inline value' if kind == 'inline' else 'without inline configuration'}: exit {code}, expected {want_exit}")
        finally:
            shutil.rmtree(root, ignore_errors=True)
    return "ok" if not bad else "fail(" + "; ".join(bad) + ")"


def run_e2e_otherdoc(rec):
    """NeighbourIndependent, across documents: the document defaults of ANOTHER document of the same invocation are not a
    layer of this test case. The document under test is the second one given; the first one has defaults for the environment
    variables, the stream and the CR LF handling (and one test case without output, which passes under any of them)."""
    case = e2e_case(rec)
    if case is None:
        return "skip"
    fm, inline, flags, command, exp, want_exit = case
    if want_exit != 0 or "sleep" in command or "--cram-compat" in flags:
        return "skip"
    root = tempfile.mkdtemp(prefix="scrut-verif-cfgod-", dir=os.environ.get("VERIF_SCRATCH", "/tmp"))
    try:
        os.makedirs(os.path.join(root, "docs"))
        first = os.path.join(root, "docs", "b-first.md")
        with open(first, "w") as f:
            f.write("\n".join(["---", "defaults:", "  output_stream: combined", "  keep_crlf: true", "  strip_ansi_escaping: true", "  environment:", "    X: X-o-val", "    Y: Y-o-val", "---", "",
                               "# other", "", "```scrut", "$ true", "```", ""]))
        lines = (["---"] + fm + ["---", ""] if fm else []) + ["# t", "", "```scrut" + (" " + inline if inline else ""), "$ " + command] + exp + ["```", ""]
        path = os.path.join(root, "docs", "a-doc.md")
        with open(path, "w") as f:
            f.write("\n".join(lines))
        code, out, err, wall, pid = scenario.run_scrut([first, path] + flags, root)
        scenario.kill_group(pid)
        if code != want_exit:
            return f"fail(after another document with other defaults: exit {code}, expected {want_exit})"
        return "ok"
    finally:
        shutil.rmtree(root, ignore_errors=True)


def run(prop, tier, replay=None):
    t0 = time.time()
    work = workdir(f"{prop}-{tier}")
    build_s = build(need_scrut_bin=True, allow_broken_harness=True)
    V = Verdicts(prop)
    cov = {}
    if replay:
        with open(replay) as f:
            body = json.load(f)
        vectors = [body["replay"]["vector"]]
        states = trans = 0
    else:
        res = tlc("MC_ConfigLayers", "MC_ConfigLayers.cfg", work, workers=min(NCPU, 8), timeout=3000,
                  line_filter=lambda l: l.startswith('<<"REPLAY"') or l.startswith("Error") or "violated" in l)
        tlc_must_pass(res, "ConfigLayers MC")
        vectors = [json.loads(t) for t in sorted({f[0] for f in res.printed("REPLAY")})]
        states, trans = res.distinct, res.generated
        log(f"MC ConfigLayers: {res.distinct} layer assignments; precedence, associativity, identity and list accumulation hold on the model, {res.wall:.0f}s")
    vpath, rpath = os.path.join(work, "vectors.ndjson"), os.path.join(work, "records.ndjson")
    write_ndjson(vpath, vectors)
    if lib.HARNESS_BROKEN[0]:
        # the harness does not compile against /repo any more: only the end-to-end leg is real; the library-level
        # observation is filled with the model's own value (and the check ends as a tool error unless that leg finds something)
        records = [{"ev": "Load", "id": i + 1, "cli": v["cli"], "tc": v["tc"], "doc": v["doc"], "fmt": v["fmt"], "model_eff": v["eff"],
                    "obs": {"eff": v["eff"], "associative": True, "identity": True, "lists_ok": True, "e2e": "skip", "e2e_nb": "skip"}} for i, v in enumerate(vectors)]
    else:
        harness(["config-replay", "--vectors", vpath, "--records", rpath])
        records = read_ndjson(rpath)
    with concurrent.futures.ThreadPoolExecutor(max_workers=min(NCPU, 12)) as ex:
        for r, e in zip(records, ex.map(run_e2e, records)):
            r["obs"]["e2e"] = e if e in ("ok", "skip") else "fail"
            r["obs"]["e2e_detail"] = e
        for r, e in zip(records, ex.map(run_e2e_nb, records)):
            r["obs"]["e2e_nb"] = e if e in ("ok", "skip") else "fail"
            r["obs"]["e2e_nb_detail"] = e
        for r, e in zip(records, ex.map(run_e2e_otherdoc, records)):
            r["obs"]["e2e_od_detail"] = e
            if e not in ("ok", "skip"):
                r["obs"]["e2e_nb"] = "fail"
            elif e == "ok" and r["obs"]["e2e_nb"] == "skip":
                r["obs"]["e2e_nb"] = "ok"
    n_e2e = sum(1 for r in records if r["obs"]["e2e"] != "skip") + 2 * sum(1 for r in records if str(r["obs"].get("e2e_nb_detail", "skip")) != "skip") + sum(1 for r in records if str(r["obs"].get("e2e_od_detail", "skip")) != "skip")
    results, printed = tlc_validate_sharded("ConfigTrace", "ConfigTrace.cfg", records, work, shards=min(NCPU, 6),
                                            slim=lambda r: {k: r[k] for k in ("ev", "id", "cli", "tc", "doc", "fmt")} | {"obs": {k: r["obs"][k] for k in ("eff", "associative", "identity", "lists_ok", "e2e", "e2e_nb")}})
    for r in results:
        tlc_must_pass(r, "ConfigTrace VAL")
    validated = sum(r.distinct - 1 for r in results)
    if validated != len(records):
        raise ToolError(f"trace validation consumed {validated} of {len(records)} records")
    byid = {r["id"]: r for r in records}
    for _p, rid in printed["VERDICT"]:
        r = byid[rid]
        o = r["obs"]
        bad = []
        if "panic" in o:
            bad.append("panic")
        for k in KEYS:
            want = highest([r[l]["scalar"][k] for l in ("cli", "tc", "doc", "fmt")])
            if o["eff"]["scalar"].get(k) != want:
                layers = "".join(r[l]["scalar"][k] for l in ("cli", "tc", "doc", "fmt"))
                bad.append(f"{k}:layers={layers}:got={o['eff']['scalar'].get(k)}")
        for e in ("X", "Y"):
            want = highest([r[l]["env"][e] for l in ("cli", "tc", "doc", "fmt")])
            if o["eff"]["env"].get(e) != want:
                # which pair of layers disagrees with precedence?
                layers = "".join(r[l]["env"][e] for l in ("cli", "tc", "doc", "fmt"))
                lower = "doc" if o["eff"]["env"].get(e) == r["doc"]["env"][e] and r["tc"]["env"][e] != "U" else "fmt"
                bad.append(f"environment-variable:lower-layer-wins({lower})")
        for flag in ("associative", "identity", "lists_ok"):
            if not o[flag]:
                bad.append("not-" + flag)
        if o["e2e"] == "fail":
            bad.append("end-to-end:" + ("environment" if any(r[l]["env"][e] != "U" for l in ("tc", "doc") for e in ("X", "Y")) else
                                        next((k for k in KEYS if any(r[l]["scalar"][k] != "U" for l in ("cli", "tc", "doc"))), "format-default")))
        if o.get("e2e_nb") == "fail" and str(o.get("e2e_nb_detail", "")).startswith("fail") and "set inline by the test case before" in str(o.get("e2e_nb_detail")):
            bad.append("end-to-end:inline-configuration-of-the-test-case-before-in-effect")
        elif o.get("e2e_nb") == "fail" and str(o.get("e2e_nb_detail", "")).startswith("fail"):
            bad.append("end-to-end:environment:not-in-effect-after-a-test-case-that-ran-with-another-value-of-the-variable")
        if o.get("e2e_nb") == "fail" and str(o.get("e2e_od_detail", "")).startswith("fail"):
            bad.append("end-to-end:defaults-of-another-document-of-the-invocation-in-effect")
        for b in sorted(set(bad)) or ["unclassified"]:
            V.violation(b, WHAT, {"vector": {k: r[k] for k in ("cli", "tc", "doc", "fmt")}, "observed": o})
    code, nviol, known = V.finish()
    if lib.HARNESS_BROKEN[0] and nviol == 0:
        tool_error("harness build failed (does /repo still compile with --features verif?); the end-to-end leg found no violation")
    if not replay:
        cov.update({
            "states": states, "transitions": max(trans, 1), "traces_validated_against_impl": validated,
            "samples": [{k: r[k] for k in ("cli", "tc", "doc", "fmt")} | {"effective": r["obs"]["eff"], "e2e": r["obs"]["e2e_detail"]} for r in records if r["obs"]["e2e"] != "skip"][:2],
            "evaluations": len(records), "end_to_end_runs": n_e2e,
            "distinct_nontrivial": len({json.dumps([r[k] for k in ("cli", "tc", "doc", "fmt")], sort_keys=True) for r in records
                                        if sum(1 for l in ("cli", "tc", "doc", "fmt") for k in KEYS if r[l]["scalar"][k] != "U") + sum(1 for l in ("tc", "doc", "fmt") for e in ("X", "Y") if r[l]["env"][e] != "U") >= 2}),
            "rule": "one evaluation = the real with_defaults_from / with_overrides_from applied in the order of parser, test command and executor to one assignment of {unset, A, B} to the four layers (focus key x interfering key, or both environment variables); non-trivial = at least two layer entries set",
            "known_findings_seen": known, "build_s": round(build_s, 1), "exhaustive": True,
        })
        write_evidence(prop, tier, "model_checking", cov,
                       ["TLC", "the three call sites are reproduced in the harness in the order they occur in markdown.rs, test.rs and stateful_executor.rs",
                        "end-to-end runs cover environment variables, output_stream and keep_crlf (keys whose effect is observable from a command)"],
                       time.time() - t0, nviol)
    log(f"{prop}: {validated} layer assignments validated by TLC ({n_e2e} also end to end), {nviol} violation(s), {time.time()-t0:.0f}s")
    return code

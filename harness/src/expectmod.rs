//! C08: replay of ExpectationGrammar token lines into the real ExpectationMaker.

use std::time::Duration;

use scrut::escaping::Escaper;
use scrut::expectation::ExpectationMaker;
use scrut::rules::registry::RuleRegistry;
use scrut::rules::rule::RuleMaker;
use serde_json::json;
use serde_json::Value;

use crate::util::*;

const WORDS: &[&str] = &["foo", "föö", "日本", "a1_b", "a\u{200d}b", "t\u{1b}z"];
const PUNCT: &[&str] = &["!", ",", ":", "="];

fn tok_text(t: &Value, word: &str, punct: &str) -> String {
    let a = t.as_array().unwrap();
    match a[0].as_str().unwrap() {
        "W" => word.to_string(),
        "SP" => " ".to_string(),
        "TAB" => "\t".to_string(),
        "NBSP" => "\u{a0}".to_string(),
        "LP" => "(".to_string(),
        "RP" => ")".to_string(),
        "X" => punct.to_string(),
        "BS" => "\\".to_string(),
        "LB" => "[".to_string(),
        "ST" => "*".to_string(),
        "K" | "Q" => a[1].as_str().unwrap().to_string(),
        other => tool_error(&format!("unknown token {other}")),
    }
}

fn quant_of(optional: bool, multiline: bool) -> &'static str {
    match (optional, multiline) {
        (false, false) => "",
        (true, false) => "?",
        (true, true) => "*",
        (false, true) => "+",
    }
}

fn one(id: u64, v: &Value, seed: u64) -> Value {
    let toks = v["line"].as_array().unwrap();
    let word = WORDS[pick(seed, id, WORDS.len())];
    let punct = PUNCT[pick(seed, id * 3 + 1, PUNCT.len())];
    let texts: Vec<String> = toks.iter().map(|t| tok_text(t, word, punct)).collect();
    let mut pre = vec![String::new()];
    for t in &texts {
        let last = pre.last().unwrap().clone();
        pre.push(last + t);
    }
    let text = pre.last().unwrap().clone();
    // a maker over ANOTHER registry (only `equal`) is used first, in the same process: what a line means is a matter of the
    // registry of the maker that parses it, not of whichever maker happened to parse before (library users may hold several)
    {
        let mut reduced = RuleRegistry::new();
        reduced.register(scrut::rules::equal::EqualRule::make, &["equal", "eq"]);
        let _ = guarded(|| ExpectationMaker::new(reduced).parse("warm up (equal)").map(|_| ()));
    }
    let maker = ExpectationMaker::new(RuleRegistry::default());
    let obs = match guarded(|| maker.parse(&text)) {
        Err(msg) => json!({"result": "panic", "kind": "", "expr": "", "quant": "", "rt": [], "msg": msg}),
        Ok(Err(e)) => json!({"result": "err", "kind": "", "expr": "", "quant": "", "rt": [], "msg": format!("{e:#}").chars().take(120).collect::<String>()}),
        Ok(Ok(exp)) => {
            let (kind, expr, optional, multiline) = exp.unmake();
            let expr_s = String::from_utf8_lossy(&expr).to_string();
            // candidate lines on which original and re-parsed expectation must agree
            let mut cands: Vec<Vec<u8>> = vec![];
            for base in [expr_s.clone(), text.clone(), format!("{expr_s}x"), String::new(), "anything else".to_string(), format!(" {expr_s}")] {
                cands.push(base.as_bytes().to_vec());
                cands.push(format!("{base}\n").as_bytes().to_vec());
            }
            let mut rt = vec![];
            for (name, esc) in [("ascii", Escaper::Ascii), ("unicode", Escaper::Unicode)] {
                let rendered = match guarded(|| exp.to_expression_string(&esc)) {
                    Ok(r) => r,
                    Err(m) => {
                        rt.push(json!({"esc": name, "text": "", "result": "panic", "same_quant": false, "same_matches": false, "msg": m}));
                        continue;
                    }
                };
                match guarded(|| maker.parse(&rendered)) {
                    Err(m) => rt.push(json!({"esc": name, "text": rendered, "result": "panic", "same_quant": false, "same_matches": false, "msg": m})),
                    Ok(Err(e)) => rt.push(json!({"esc": name, "text": rendered, "result": "err", "same_quant": false, "same_matches": false, "msg": format!("{e:#}").chars().take(100).collect::<String>()})),
                    Ok(Ok(e2)) => {
                        let same_quant = e2.optional == optional && e2.multiline == multiline;
                        // "matches the same line contents": the line terminator is not content, except for the
                        // no-eol kind whose very meaning is the missing terminator
                        let diff: Vec<String> = cands.iter()
                            .filter(|c| kind == "no-eol" || c.ends_with(b"\n"))
                            .filter(|c| exp.matches(c) != e2.matches(c)).map(|c| String::from_utf8_lossy(c).to_string()).collect();
                        rt.push(json!({"esc": name, "text": rendered, "result": "ok", "same_quant": same_quant, "same_matches": diff.is_empty(), "msg": diff.first().cloned().unwrap_or_default()}));
                    }
                }
            }
            json!({"result": "ok", "kind": kind, "expr": expr_s, "quant": quant_of(optional, multiline), "rt": rt, "msg": ""})
        }
    };
    json!({"ev": "Load", "id": id, "line": v["line"], "text": text, "pre": pre, "obs": obs})
}

/// `expect-replay --vectors F --records OUT --seed S`
pub fn replay(args: &[String]) {
    let vectors = read_ndjson(&arg_required(args, "--vectors"));
    let records = arg_required(args, "--records");
    let seed = arg_u64(args, "--seed", 0);
    let items: Vec<(u64, Value)> = vectors.into_iter().enumerate().map(|(i, v)| (v.get("id").and_then(|x| x.as_u64()).unwrap_or(i as u64 + 1), v)).collect();
    let ids: Vec<u64> = items.iter().map(|x| x.0).collect();
    let results = run_guarded_par(items, Duration::from_secs(30), threads(), move |(id, v): &(u64, Value)| one(*id, v, seed));
    let mut w = NdjsonWriter::create(&records);
    for (i, r) in results.into_iter().enumerate() {
        match r {
            Guarded::Ok(rec) => w.write(&rec),
            _ => w.write(&json!({"ev": "Load", "id": ids[i], "line": [], "text": "", "pre": [""], "obs": {"result": "panic", "kind": "", "expr": "", "quant": "", "rt": [], "msg": "harness worker died"}})),
        }
    }
    w.finish();
}

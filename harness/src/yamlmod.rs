//! C17: render a configuration (one-line `{...}` form via the Markdown test-case generator, YAML front-matter via
//! the Serialize implementation) and parse it back with the real Markdown parser.

use std::collections::BTreeMap;
use std::path::PathBuf;
use std::time::Duration;

use scrut::config::DocumentConfig;
use scrut::config::OutputStreamControl;
use scrut::config::TestCaseConfig;
use scrut::config::TestCaseWait;
use scrut::escaping::Escaper;
use scrut::generators::generator::TestCaseGenerator;
use scrut::generators::markdown::MarkdownTestCaseGenerator;
use scrut::outcome::Outcome;
use scrut::output::ExitStatus;
use scrut::output::Output;
use scrut::parsers::parser::Parser;
use scrut::parsers::parser::ParserType;
use scrut::testcase::TestCase;
use serde_json::json;
use serde_json::Value;

use crate::mdmod::md_parser;
use crate::util::*;

fn duration(c: &str) -> Duration {
    match c {
        "0s" => Duration::from_secs(0),
        "1ms" => Duration::from_millis(1),
        "1500ms" => Duration::from_millis(1500),
        "90s" => Duration::from_secs(90),
        "3days" => Duration::from_secs(3 * 86400),
        "400days" => Duration::from_secs(400 * 86400),
        "1h1m1s" => Duration::from_secs(3661),
        other => tool_error(&format!("unknown duration class {other}")),
    }
}

/// sweep classes `cp:<hex>:<ctx>`: one character alone / in the middle / at the start / at the end of a short word
fn swept(c: &str) -> Option<String> {
    let mut it = c.split(':');
    if it.next() != Some("cp") { return None; }
    let ch = char::from_u32(u32::from_str_radix(it.next()?, 16).ok()?)?;
    Some(match it.next()? { "alone" => ch.to_string(), "mid" => format!("a{ch}b"), "lead" => format!("{ch}b"), "trail" => format!("a{ch}"), _ => return None })
}

fn env_value(c: &str) -> String {
    if let Some(v) = swept(c) { return v; }
    match c {
        "plain" => "value",
        "empty" => "",
        "dquote" => "say \"hi\"",
        "squote" => "it's",
        "backslash" => "C:\\temp\\new",
        "colon_space" => "key: value",
        "brace" => "{a} and }",
        "comma" => "a, b",
        "hash" => "a #b",
        "lead_space" => "  lead",
        "trail_space" => "trail  ",
        "utf8" => "héllo 日本",
        "looks_bool" => "true",
        "looks_num" => "007",
        "looks_null" => "null",
        "percent_at" => "%x @y &z *w",
        // several lines, one of them consisting of three dashes (the front-matter delimiter, indented inside a block scalar)
        "multiline_dashes" => "title\n---\nbody",
        // TAB, NEL, a C0 control character, LINE SEPARATOR
        "controls" => "a\tb\u{85}c\u{1}d\u{2028}e",
        "combining" => "cafe\u{301} \u{939}\u{93f}\u{928}\u{94d}\u{926}\u{940}",
        other => tool_error(&format!("unknown env class {other}")),
    }.to_string()
}

fn build(v: &Value) -> TestCaseConfig {
    let g = |k: &str| v["cfg"][k].as_str().unwrap_or("unset").to_string();
    let b = |k: &str| match g(k).as_str() { "true" => Some(true), "false" => Some(false), _ => None };
    let mut c = TestCaseConfig::empty();
    if g("timeout") != "unset" { c.timeout = Some(duration(&g("timeout"))); }
    c.keep_crlf = b("keep_crlf");
    c.detached = b("detached");
    c.strip_ansi_escaping = b("strip_ansi_escaping");
    c.output_stream = match g("output_stream").as_str() { "stdout" => Some(OutputStreamControl::Stdout), "stderr" => Some(OutputStreamControl::Stderr), "combined" => Some(OutputStreamControl::Combined), _ => None };
    c.skip_document_code = g("skip_document_code").parse().ok();
    c.wait = match g("wait").as_str() {
        "dur" => Some(TestCaseWait { timeout: Duration::from_secs(2), path: None }),
        "dur_path" => Some(TestCaseWait { timeout: Duration::from_millis(2500), path: Some(PathBuf::from("run/ready.sock")) }),
        "dur_path_space" => Some(TestCaseWait { timeout: Duration::from_secs(2), path: Some(PathBuf::from("my dir/ready file")) }),
        "dur_path_edge_blank" => Some(TestCaseWait { timeout: Duration::from_secs(2), path: Some(PathBuf::from(" ready ")) }),
        "dur_path_blank" => Some(TestCaseWait { timeout: Duration::from_secs(2), path: Some(PathBuf::from(" ")) }),
        "dur_zero" => Some(TestCaseWait { timeout: Duration::from_secs(0), path: Some(PathBuf::from("ready")) }),
        "dur_path_tilde" => Some(TestCaseWait { timeout: Duration::from_secs(2), path: Some(PathBuf::from("~")) }),
        "dur_path_at" => Some(TestCaseWait { timeout: Duration::from_secs(2), path: Some(PathBuf::from("@ready")) }),
        "dur_path_colon" => Some(TestCaseWait { timeout: Duration::from_secs(2), path: Some(PathBuf::from("ready:")) }),
        "dur_path_null" => Some(TestCaseWait { timeout: Duration::from_secs(2), path: Some(PathBuf::from("null")) }),
        "dur_path_true" => Some(TestCaseWait { timeout: Duration::from_secs(2), path: Some(PathBuf::from("True")) }),
        "dur_path_num" => Some(TestCaseWait { timeout: Duration::from_secs(2), path: Some(PathBuf::from("123")) }),
        "dur_path_special" => Some(TestCaseWait { timeout: Duration::from_secs(2), path: Some(PathBuf::from("a\", b}#c")) }),
        other => swept(other).map(|p| TestCaseWait { timeout: Duration::from_secs(2), path: Some(PathBuf::from(p)) }),
    };
    for (i, cls) in v["env"].as_array().unwrap().iter().enumerate() {
        c.environment.insert(["VAR_ONE", "VAR_TWO"][i].to_string(), env_value(cls.as_str().unwrap()));
    }
    c
}

fn canon(c: &TestCaseConfig) -> BTreeMap<String, String> {
    let mut m = BTreeMap::new();
    m.insert("timeout".into(), format!("{:?}", c.timeout));
    m.insert("keep_crlf".into(), format!("{:?}", c.keep_crlf));
    m.insert("detached".into(), format!("{:?}", c.detached));
    m.insert("strip_ansi_escaping".into(), format!("{:?}", c.strip_ansi_escaping));
    m.insert("output_stream".into(), format!("{:?}", c.output_stream));
    m.insert("skip_document_code".into(), format!("{:?}", c.skip_document_code));
    m.insert("wait".into(), format!("{:?}", c.wait.as_ref().map(|w| (w.timeout, w.path.clone()))));
    for (k, v) in &c.environment {
        m.insert(format!("env.{k}"), format!("{v:?}"));
    }
    m
}

fn one(id: u64, v: &Value) -> Value {
    let c = build(v);
    let form = v["form"].as_str().unwrap();
    let mut obs = json!({"rendered": false, "parsed": false, "orig": {}, "back": {}, "text": "", "detail": ""});
    let r = guarded(|| -> anyhow::Result<(String, BTreeMap<String, String>, BTreeMap<String, String>)> {
        if form == "one_liner" {
            // what `scrut create` / `update --convert` write: the difference to the Markdown defaults, in one line
            let full = c.with_defaults_from(&TestCaseConfig::default_markdown());
            let tc = TestCase { title: "t".into(), shell_expression: "true".into(), expectations: vec![], exit_code: None, line_number: 0, config: full.clone() };
            let output = Output { stdout: vec![].into(), stderr: vec![].into(), exit_code: ExitStatus::Code(0) };
            let oc = Outcome { location: None, output: output.clone(), testcase: tc.clone(), format: ParserType::Markdown, escaping: Escaper::Unicode, result: tc.validate(&output) };
            // a document has several test cases, each with its own configuration: a neighbour with a fixed, different
            // configuration is rendered in the same call, before and after the one under test
            let mut ncfg = TestCaseConfig::default_markdown();
            ncfg.timeout = Some(std::time::Duration::from_secs(7));
            ncfg.environment.insert("NEIGHBOUR".into(), "n".into());
            let ntc = TestCase { title: "n".into(), shell_expression: "false".into(), expectations: vec![], exit_code: None, line_number: 0, config: ncfg.clone() };
            let noc = Outcome { location: None, output: output.clone(), testcase: ntc.clone(), format: ParserType::Markdown, escaping: Escaper::Unicode, result: ntc.validate(&output) };
            let text = MarkdownTestCaseGenerator::default().generate_testcases(&[&noc, &oc, &noc])?;
            let (_d, tests) = md_parser().parse(&text).map_err(|e| anyhow::anyhow!("PARSE {text:?}: {e:#}"))?;
            if tests.len() != 3 { anyhow::bail!("PARSE {} tests in {text:?}", tests.len()); }
            let (mut a, mut b) = (canon(&full), canon(&tests[1].config));
            for (k, val) in canon(&ncfg) { a.insert(format!("before.{k}"), val.clone()); a.insert(format!("after.{k}"), val); }
            for (k, val) in canon(&tests[0].config) { b.insert(format!("before.{k}"), val); }
            for (k, val) in canon(&tests[2].config) { b.insert(format!("after.{k}"), val); }
            Ok((text, a, b))
        } else {
            let dc = DocumentConfig { defaults: c.clone(), total_timeout: c.timeout, shell: Some(PathBuf::from("/bin/my bash")),
                                      prepend: vec![PathBuf::from("pre one.md")], append: vec![PathBuf::from("app#.md")] };
            let yaml = serde_yaml::to_string(&dc)?;
            let text = format!("---\n{yaml}---\n\n# t\n\n```scrut\n$ true\n```\n");
            let (d2, tests) = md_parser().parse(&text).map_err(|e| anyhow::anyhow!("PARSE {text:?}: {e:#}"))?;
            if tests.len() != 1 { anyhow::bail!("PARSE {} tests in {text:?}", tests.len()); }
            let want = DocumentConfig::default_markdown().with_overrides_from(&dc);
            let mut a = canon(&want.defaults);
            let mut b = canon(&d2.defaults);
            for (m, d) in [(&mut a, &want), (&mut b, &d2)] {
                m.insert("doc.total_timeout".into(), format!("{:?}", d.total_timeout));
                m.insert("doc.shell".into(), format!("{:?}", d.shell));
                m.insert("doc.prepend".into(), format!("{:?}", d.prepend));
                m.insert("doc.append".into(), format!("{:?}", d.append));
            }
            // the test case itself must see the document defaults
            let tcfg = canon(&tests[0].config);
            let twant = canon(&c.with_defaults_from(&TestCaseConfig::default_markdown()));
            for (k, val) in twant { a.insert(format!("tc.{k}"), val); }
            for (k, val) in tcfg { b.insert(format!("tc.{k}"), val); }
            Ok((text, a, b))
        }
    });
    match r {
        Err(m) => obs["detail"] = json!(format!("panic: {m}")),
        Ok(Err(e)) => {
            let msg = format!("{e:#}");
            obs["rendered"] = json!(msg.starts_with("PARSE"));
            obs["detail"] = json!(msg.chars().take(300).collect::<String>());
        }
        Ok(Ok((text, a, b))) => {
            obs["rendered"] = json!(true);
            obs["parsed"] = json!(true);
            obs["orig"] = json!(a);
            obs["back"] = json!(b);
            obs["text"] = json!(text);
        }
    }
    json!({"ev": "Load", "id": id, "cfg": v["cfg"], "env": v["env"], "form": form, "obs": obs})
}

/// `yaml-replay --vectors F --records OUT`
pub fn replay(args: &[String]) {
    let vectors = read_ndjson(&arg_required(args, "--vectors"));
    let records = arg_required(args, "--records");
    let mut w = NdjsonWriter::create(&records);
    for (i, v) in vectors.iter().enumerate() {
        w.write(&one(v.get("id").and_then(|x| x.as_u64()).unwrap_or(i as u64 + 1), v));
    }
    w.finish();
}

//! scrut-verif: conformance harness binding the TLA+ specifications in /verif/specs to scrut.
//! Every sub-command reads TLC-generated vectors (ndjson) and/or draws seeded inputs, drives the
//! real library, and writes ndjson records that TLC trace specifications evaluate.

mod capturemod;
mod configmod;
mod crammod;
mod diffmod;
mod escapemod;
mod expectmod;
mod genmod;
mod mdmod;
mod rendermod;
mod rulesmod;
mod shellmod;
mod updatemod;
mod util;
mod yamlmod;

fn main() {
    util::silence_panics();
    let args: Vec<String> = std::env::args().skip(1).collect();
    let cmd = args.first().cloned().unwrap_or_default();
    match cmd.as_str() {
        "diff-replay" => diffmod::replay(&args),
        "diff-probe" => diffmod::probe(&args),
        "rules-replay" => rulesmod::replay(&args),
        "md-replay" => mdmod::replay(&args),
        "capture-replay" => capturemod::replay(&args),
        "capture-big" => capturemod::big(&args),
        "shell-replay" => shellmod::replay(&args),
        "render-replay" => rendermod::replay(&args),
        "yaml-replay" => yamlmod::replay(&args),
        "config-replay" => configmod::replay(&args),
        "update-replay" => updatemod::replay(&args),
        "gen-replay" => genmod::replay(&args),
        "escape-replay" => escapemod::replay(&args),
        "escape-sweep" => escapemod::sweep(&args),
        "expect-replay" => expectmod::replay(&args),
        "cram-replay" => crammod::replay(&args),
        _ => util::tool_error(&format!("unknown sub-command `{cmd}`")),
    }
}

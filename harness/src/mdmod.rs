//! C06 (and parse side of C10): replay of MarkdownDoc vectors into the real MarkdownParser.

use std::sync::Arc;
use std::time::Duration;

use scrut::expectation::ExpectationMaker;
use scrut::parsers::markdown::MarkdownParser;
use scrut::parsers::markdown::DEFAULT_MARKDOWN_LANGUAGES;
use scrut::parsers::parser::Parser;
use scrut::rules::registry::RuleRegistry;
use scrut::testcase::TestCase;
use serde_json::json;
use serde_json::Value;

use crate::util::*;

pub fn md_parser() -> MarkdownParser {
    MarkdownParser::new(
        Arc::new(ExpectationMaker::new(RuleRegistry::default())),
        // the languages that mark a test block are a parameter (--markdown-languages): scrut and sh, as in the spec
        &[DEFAULT_MARKDOWN_LANGUAGES[0], "sh"],
        None,
    )
}

pub fn render_text(lines: &[String], crlf: bool, final_newline: bool) -> String {
    let sep = if crlf { "\r\n" } else { "\n" };
    let mut t = lines.join(sep);
    if final_newline && !lines.is_empty() {
        t.push_str(sep);
    }
    t
}

pub fn project_test(tc: &TestCase) -> Value {
    // the inline configurations the spec uses, mapped back to their text
    let cfg = match (tc.config.timeout, tc.config.environment.get("A")) {
        (None, None) => "".to_string(),
        (Some(d), None) if d == Duration::from_secs(3) => "{timeout: 3s}".to_string(),
        (None, Some(v)) if v == "x  y" && tc.config.environment.len() == 1 => "{environment: {A: \"x  y\"}}".to_string(),
        _ => "other".to_string(),
    };
    json!({
        "cmd": tc.shell_expression.split('\n').collect::<Vec<_>>(),
        "exps": tc.expectations.iter().map(|e| e.original_string()).collect::<Vec<_>>(),
        "code": tc.exit_code.map(|c| c.to_string()).unwrap_or_default(),
        "cfg": cfg,
        "line": tc.line_number,
        "title": if tc.title.is_empty() { vec![] } else { tc.title.split('\n').map(|s| s.replace('Ü', "@P@")).collect::<Vec<_>>() },
    })
}

pub fn parse_project(text: &str) -> Value {
    match guarded(|| md_parser().parse(text)) {
        Err(msg) => json!({"result": "panic", "tests": [], "msg": msg, "fm": false}),
        Ok(Err(e)) => json!({"result": "err", "tests": [], "msg": format!("{e:#}").chars().take(200).collect::<String>(), "fm": false}),
        // "fm": the document configuration of the spec's front-matter (`total_timeout: 5s`) was read
        Ok(Ok((cfg, tests))) => json!({"result": "ok", "tests": tests.iter().map(project_test).collect::<Vec<_>>(), "msg": "",
                                        "fm": cfg.total_timeout == Some(Duration::from_secs(5))}),
    }
}

/// `md-replay --vectors F --records OUT`
pub fn replay(args: &[String]) {
    let vectors = read_ndjson(&arg_required(args, "--vectors"));
    let records = arg_required(args, "--records");
    let items: Vec<(u64, Value)> = vectors.into_iter().enumerate().map(|(i, v)| (i as u64 + 1, v)).collect();
    let n = items.len();
    let results = run_guarded_par(items, Duration::from_secs(30), threads(), |(id, v): &(u64, Value)| {
        let lines: Vec<String> = v["lines"].as_array().unwrap().iter().map(|l| l.as_str().unwrap().replace("@U@", "aü").replace("@P@", "Ü")).collect();
        let mut out = vec![];
        for (vi, (crlf, fnl)) in [(false, true), (true, true), (false, false), (true, false)].iter().enumerate() {
            let text = render_text(&lines, *crlf, *fnl);
            let obs = parse_project(&text);
            out.push(json!({"ev": "Load", "id": id * 10 + vi as u64, "vid": id, "crlf": crlf, "final_newline": fnl,
                            "ref": v["ref"], "fm": v["fm"], "obs": obs, "lines": v["lines"]}));
        }
        out
    });
    let mut w = NdjsonWriter::create(&records);
    let mut bad = 0;
    for r in results {
        match r {
            Guarded::Ok(recs) => recs.iter().for_each(|x| w.write(x)),
            _ => bad += 1,
        }
    }
    w.finish();
    if bad > 0 {
        tool_error(&format!("{bad} of {n} markdown vectors could not be processed by the harness"));
    }
}

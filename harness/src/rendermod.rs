//! C19: every renderer on outcome lists built from real diffs (shapes enumerated by specs/Render.tla).

use std::time::Duration;

use scrut::config::TestCaseConfig;
use scrut::escaping::Escaper;
use scrut::outcome::Outcome;
use scrut::output::ExitStatus;
use scrut::output::Output;
use scrut::parsers::parser::ParserType;
use scrut::renderers::diff::DiffRenderer;
use scrut::renderers::pretty::PrettyColorRenderer;
use scrut::renderers::pretty::PrettyMonochromeRenderer;
use scrut::renderers::renderer::Renderer;
use scrut::renderers::structured::JsonRenderer;
use scrut::renderers::structured::YamlRenderer;
use scrut::testcase::TestCase;
use scrut::testcase::TestCaseError;
use serde_json::json;
use serde_json::Value;

use crate::diffmod::concretise_fam;
use crate::util::*;

fn families() -> Vec<(&'static str, Vec<String>)> {
    let s = |v: &[&str]| v.iter().map(|x| x.to_string()).collect::<Vec<_>>();
    vec![
        ("ascii", s(&["alpha", "bravo", "charlie", "delta"])),
        ("multibyte", s(&["äpfel", "日本語のテキスト", "한국어", "emoji 😀 ok"])),
        ("wide", s(&["ｗｉｄｅ", "全角文字", "漢字かな", "ＡＢＣ"])),
        ("trail_ascii_ws", s(&["foo  ", "bar\t", "baz ", "qux \t "])),
        ("trail_unicode_ws", s(&["foo\u{3000}", "bar\u{a0}", "baz\u{2003}", "qux\u{3000}\u{3000}"])),
        // lines that consist of multi-byte whitespace only
        ("only_unicode_ws", s(&["\u{3000}", "\u{a0}", "\u{2003}\u{2003}", " \u{a0}"])),
        ("control", s(&["a\u{1b}[1mb", "nul\0x", "bell\u{7}", "cr\rx"])),
        // a carriage return at the END of the line (a kept CR LF ending, or a bare CR): it is content
        ("tail_cr", s(&["foo\r", "bar\r", "baz\r\r", "qux"])),
        ("long", (0..4).map(|i| format!("L{i}-{}", "x".repeat(10_000))).collect()),
        ("empty", s(&["", "a", " ", "b"])),
    ]
}

fn strip_ansi(s: &str) -> String {
    String::from_utf8(strip_ansi_escapes_lite(s.as_bytes())).unwrap_or_default()
}

/// removes CSI sequences ESC [ ... letter (the only thing `console` emits); keeps everything else
fn strip_ansi_escapes_lite(b: &[u8]) -> Vec<u8> {
    let mut out = vec![];
    let mut i = 0;
    while i < b.len() {
        if b[i] == 0x1b && i + 1 < b.len() && b[i + 1] == b'[' {
            let mut j = i + 2;
            while j < b.len() && !(b[j] as char).is_ascii_alphabetic() {
                j += 1;
            }
            i = j + 1;
        } else {
            out.push(b[i]);
            i += 1;
        }
    }
    out
}

fn kind_of(r: &Result<(), TestCaseError>) -> &'static str {
    match r {
        Ok(()) => "success",
        Err(TestCaseError::MalformedOutput(_)) => "malformed_output",
        Err(TestCaseError::InvalidExitCode { .. }) => "invalid_exit_code",
        Err(TestCaseError::InternalError(_)) => "internal_error",
        Err(TestCaseError::Timeout) => "timeout",
        Err(TestCaseError::Skipped) => "skipped",
    }
}

fn other_outcome(kind: &str, format: ParserType, escaping: &Escaper, location: &Option<String>, line_number: usize) -> Outcome {
    if kind == "malformed_same_line" {
        // a second FAILING test case with the same location and the same line number (test cases of prepended / appended
        // documents are reported under the main document's path)
        let maker = scrut::expectation::ExpectationMaker::new(scrut::rules::registry::RuleRegistry::default());
        let tc = TestCase { title: "other failing".into(), shell_expression: "other-command-failing".into(),
                            expectations: vec![maker.parse("OTHER-EXPECTED-LINE").unwrap()], exit_code: None, line_number, config: TestCaseConfig::default_markdown() };
        let output: Output = ("other-actual-line\n", "", Some(0)).into();
        let result = tc.validate(&output);
        return Outcome { location: location.clone(), output, testcase: tc, format, escaping: escaping.clone(), result };
    }
    let tc = TestCase { title: format!("other {kind}"), shell_expression: format!("other-command-{kind}"), expectations: vec![], exit_code: None,
                        line_number, config: TestCaseConfig::default_markdown() };
    let (output, result): (Output, Result<(), TestCaseError>) = match kind {
        "success" => (("", "", Some(0)).into(), Ok(())),
        "invalid_exit_code" => (("", "", Some(3)).into(), Err(TestCaseError::InvalidExitCode { actual: 3, expected: 0 })),
        "internal_error" => (ExitStatus::Unknown.into(), Err(TestCaseError::InternalError(anyhow::anyhow!("something\nwent wrong")))),
        "timeout" => (Duration::from_secs(1).into(), Err(TestCaseError::Timeout)),
        _ => (("", "", None).into(), Err(TestCaseError::Skipped)),
    };
    Outcome { location: location.clone(), output, testcase: tc, format, escaping: escaping.clone(), result }
}

fn one(id: u64, v: &Value, seed: u64) -> Vec<Value> {
    let m = v["m"].as_u64().unwrap() as usize;
    let quant: Vec<String> = v["q"].as_array().unwrap().iter().map(|x| x.as_str().unwrap().to_string()).collect();
    let want: Vec<Vec<usize>> = v["M"].as_array().unwrap().iter().map(|row| row.as_array().unwrap().iter().map(|x| x.as_u64().unwrap() as usize - 1).collect()).collect();
    let fams = families();
    let mut records = vec![];
    // once per run: NO outcome at all (a document whose test cases are all detached): every renderer must still answer,
    // the structured ones with a well-formed empty list
    if id == 1 {
        let none: Vec<&Outcome> = vec![];
        let pretty = || PrettyColorRenderer { max_surrounding_lines: 1, absolute_line_numbers: false, summarize: true };
        let renderers: Vec<(&str, Box<dyn Renderer>)> = vec![
            ("pretty_color", Box::new(pretty())), ("pretty_mono", Box::new(PrettyMonochromeRenderer::new(pretty()))),
            ("diff", Box::new(DiffRenderer::default())), ("json", Box::new(JsonRenderer::default())), ("yaml", Box::new(YamlRenderer::default())),
        ];
        let mut robs = serde_json::Map::new();
        for (name, r) in renderers {
            let o = match guarded(|| r.render(&none)) {
                Err(msg) => json!({"result": "panic", "msg": msg, "missing": 0, "extra": 0, "entries": 0, "kinds_ok": false, "passed_shown": false}),
                Ok(Err(e)) => json!({"result": "err", "msg": format!("{e:#}"), "missing": 0, "extra": 0, "entries": 0, "kinds_ok": false, "passed_shown": false}),
                Ok(Ok(text)) => {
                    if name == "json" || name == "yaml" {
                        let parsed: Option<Value> = if name == "json" { serde_json::from_str(&text).ok() } else { serde_yaml::from_str(&text).ok() };
                        match parsed.as_ref().and_then(|p| p.as_array()) {
                            None => json!({"result": "malformed", "msg": text.chars().take(120).collect::<String>(), "missing": 0, "extra": 0, "entries": 0, "kinds_ok": false, "passed_shown": false}),
                            Some(arr) => json!({"result": "ok", "msg": "", "missing": 0, "extra": 0, "entries": arr.len(), "kinds_ok": arr.is_empty(), "passed_shown": false}),
                        }
                    } else {
                        json!({"result": "ok", "msg": "", "missing": 0, "extra": 0, "entries": 0, "kinds_ok": true, "passed_shown": false})
                    }
                }
            };
            robs.insert(name.to_string(), o);
        }
        records.push(json!({"ev": "Load", "id": 5, "vid": 0, "family": "no-outcomes", "n": 0, "m": 0, "q": [], "out_model": [],
                            "main_kind": "none", "kinds": [], "n_outcomes": 0, "surround": 1, "absolute": false,
                            "format": "markdown", "escaper": "Unicode", "location": false, "line_number": 0,
                            "final_newline": true, "expectations": [], "obs": robs}));
    }
    // two text families per vector (one fixed by the vector index, one by seed), each with its own options
    for (k, fi) in [(0u64, (id as usize) % fams.len()), (1u64, pick(seed, id * 7 + 1, fams.len()))] {
        let (fam_name, fam) = &fams[fi];
        let fam_refs: Vec<&str> = fam.iter().map(|x| x.as_str()).collect();
        let final_newline = pick(seed, id + k, 3) != 0;
        let c = concretise_fam(&want, &quant, m, final_newline, seed, id, &fam_refs);
        let output_bytes: Vec<u8> = c.lines.concat();
        let format = if pick(seed, id * 3 + k, 4) == 0 { ParserType::Cram } else { ParserType::Markdown };
        let escaping = if pick(seed, id * 5 + k, 2) == 0 { Escaper::Unicode } else { Escaper::Ascii };
        let location = if pick(seed, id * 11 + k, 3) == 0 { None } else { Some("docs/the-document.md".to_string()) };
        let line_number = [3usize, 99_998][pick(seed, id * 13 + k, 2)];
        let tc = TestCase { title: "main title".into(), shell_expression: "main-command --flag".into(), expectations: c.exps.clone(), exit_code: None,
                            line_number, config: TestCaseConfig::default_markdown() };
        let output = Output { stdout: output_bytes.clone().into(), stderr: vec![].into(), exit_code: ExitStatus::Code(0) };
        let result = tc.validate(&output);
        let main_kind = kind_of(&result);
        // what must be visible: unmatched expectations and unexpected lines of the real diff
        let (mut unmatched_pretty, mut unmatched_diff, mut unexpected_pretty, mut unexpected_diff) = (vec![], vec![], vec![], vec![]);
        if let Err(TestCaseError::MalformedOutput(d)) = &result {
            for dl in &d.lines {
                match dl {
                    scrut::diff::DiffLine::UnmatchedExpectation { expectation, index } => {
                        unmatched_pretty.push(expectation.to_expression_string(&escaping).trim_end().to_string());
                        // the diff renderer shows the expectation line as it was WRITTEN (not what the parsed object reports)
                        unmatched_diff.push(c.exp_texts.get(*index).cloned().unwrap_or_else(|| expectation.original_string()));
                    }
                    scrut::diff::DiffLine::UnexpectedLines { lines } => for (_, l) in lines {
                        let mut shown = l.clone();
                        if !l.ends_with(b"\n") { shown.extend(b" (no-eol)"); }
                        unexpected_pretty.push(escaping.escaped_expectation(&shown).trim_end().to_string());
                        let t = if l.ends_with(b"\n") { &l[..l.len() - 1] } else { &l[..] };
                        unexpected_diff.push(String::from_utf8_lossy(t).to_string());
                    },
                    _ => {}
                }
            }
        }
        let other_kind = ["success", "invalid_exit_code", "internal_error", "timeout", "skipped", "none", "malformed_same_line"][pick(seed, id * 17 + k, 7)];
        if other_kind == "malformed_same_line" {
            unmatched_pretty.push("OTHER-EXPECTED-LINE".to_string());
            unmatched_diff.push("OTHER-EXPECTED-LINE".to_string());
            unexpected_pretty.push("other-actual-line".to_string());
            unexpected_diff.push("other-actual-line".to_string());
        }
        let main = Outcome { location: location.clone(), output, testcase: tc, format, escaping: escaping.clone(), result };
        let other = if other_kind == "none" { None } else { Some(other_outcome(other_kind, format, &escaping, &location, if other_kind == "malformed_same_line" { line_number } else { line_number + 20 })) };
        let mut outcomes: Vec<&Outcome> = vec![&main];
        if let Some(o) = &other { outcomes.push(o); }
        let kinds: Vec<&str> = outcomes.iter().map(|o| kind_of(&o.result)).collect();
        let passed_commands: Vec<String> = outcomes.iter().filter(|o| o.result.is_ok()).map(|o| o.testcase.shell_expression.clone()).collect();
        let surround = [0usize, 1, 5][pick(seed, id * 19 + k, 3)];
        let absolute = pick(seed, id * 23 + k, 2) == 0;
        let pretty = || PrettyColorRenderer { max_surrounding_lines: surround, absolute_line_numbers: absolute, summarize: true };
        let renderers: Vec<(&str, Box<dyn Renderer>)> = vec![
            ("pretty_color", Box::new(pretty())), ("pretty_mono", Box::new(PrettyMonochromeRenderer::new(pretty()))),
            ("diff", Box::new(DiffRenderer::default())), ("json", Box::new(JsonRenderer::default())), ("yaml", Box::new(YamlRenderer::default())),
        ];
        let prefix = if format == ParserType::Cram { "  " } else { "" };
        let mut robs = serde_json::Map::new();
        for (name, r) in renderers {
            let o = match guarded(|| r.render(&outcomes)) {
                Err(msg) => json!({"result": "panic", "msg": msg, "missing": 0, "extra": 0, "entries": 0, "kinds_ok": false, "passed_shown": false}),
                Ok(Err(e)) => json!({"result": "err", "msg": format!("{e:#}"), "missing": 0, "extra": 0, "entries": 0, "kinds_ok": false, "passed_shown": false}),
                Ok(Ok(text)) => {
                    let plain = strip_ansi(&text);
                    let passed_shown = passed_commands.iter().any(|c| plain.contains(c.as_str()));
                    match name {
                        "pretty_color" | "pretty_mono" => {
                            let missing = unmatched_pretty.iter().chain(unexpected_pretty.iter()).filter(|t| !plain.contains(t.as_str())).count();
                            json!({"result": "ok", "msg": "", "missing": missing, "extra": 0, "entries": 0, "kinds_ok": true, "passed_shown": passed_shown})
                        }
                        "diff" => {
                            let plain = text.clone();     // the diff renderer emits no colours; control bytes are content
                            let passed_shown = passed_commands.iter().any(|c| plain.contains(c.as_str()));
                            // split at LF only: a CR at the end of a rendered line is part of what is shown
                            let minus: Vec<&str> = plain.split('\n').filter(|l| l.starts_with('-') && !l.starts_with("--- ")).collect();
                            let plus: Vec<&str> = plain.split('\n').filter(|l| l.starts_with('+') && !l.starts_with("+++ ")).collect();
                            // expected -/+ lines of the main outcome; an embedded newline in a line cannot occur (lines are lines)
                            let exp_minus: Vec<String> = unmatched_diff.iter().map(|t| format!("-{prefix}{t}")).collect();
                            let mut exp_plus: Vec<String> = unexpected_diff.iter().map(|t| format!("+{prefix}{t}")).collect();
                            if other_kind == "invalid_exit_code" { exp_plus.push(format!("+{prefix}[3]")); }
                            // "\r" inside a line splits it for str::lines(); compare on joined text instead
                            let norm = |v: Vec<String>| v.join("\n");
                            let got_minus = minus.iter().map(|x| x.to_string()).collect::<Vec<_>>();
                            let got_plus = plus.iter().map(|x| x.to_string()).collect::<Vec<_>>();
                            let missing = (norm(exp_minus.clone()) != norm(got_minus)) as usize + (norm(exp_plus.clone()) != norm(got_plus)) as usize;
                            json!({"result": "ok", "msg": "", "missing": missing, "extra": 0, "entries": 0, "kinds_ok": true, "passed_shown": passed_shown})
                        }
                        _ => {
                            let parsed: Option<Value> = if name == "json" { serde_json::from_str(&text).ok() } else { serde_yaml::from_str(&text).ok() };
                            match parsed.as_ref().and_then(|p| p.as_array()) {
                                None => json!({"result": "malformed", "msg": text.chars().take(120).collect::<String>(), "missing": 0, "extra": 0, "entries": 0, "kinds_ok": false, "passed_shown": false}),
                                Some(arr) => {
                                    let got: Vec<String> = arr.iter().map(|e| e["result"]["kind"].as_str().unwrap_or("?").to_string()).collect();
                                    json!({"result": "ok", "msg": "", "missing": 0, "extra": 0, "entries": arr.len(), "kinds_ok": got == kinds, "passed_shown": false})
                                }
                            }
                        }
                    }
                }
            };
            robs.insert(name.to_string(), o);
        }
        records.push(json!({"ev": "Load", "id": id * 10 + k, "vid": id, "family": fam_name, "n": v["n"], "m": m, "q": quant, "out_model": v["out"],
                            "main_kind": main_kind, "kinds": kinds, "n_outcomes": outcomes.len(), "surround": surround, "absolute": absolute,
                            "format": format.to_string(), "escaper": format!("{escaping:?}"), "location": location.is_some(), "line_number": line_number,
                            "final_newline": final_newline, "expectations": c.exp_texts.iter().map(|t| t.chars().take(60).collect::<String>()).collect::<Vec<_>>(),
                            "obs": robs}));
    }
    records
}

/// `render-replay --vectors F --records OUT --seed S`
pub fn replay(args: &[String]) {
    let vectors = read_ndjson(&arg_required(args, "--vectors"));
    let records = arg_required(args, "--records");
    let seed = arg_u64(args, "--seed", 0);
    let items: Vec<(u64, Value)> = vectors.into_iter().enumerate().map(|(i, v)| (v.get("id").and_then(|x| x.as_u64()).unwrap_or(i as u64 + 1), v)).collect();
    let results = run_guarded_par(items, Duration::from_secs(120), threads(), move |(id, v): &(u64, Value)| one(*id, v, v.get("seed").and_then(|x| x.as_u64()).unwrap_or(seed)));
    let mut w = NdjsonWriter::create(&records);
    for r in results {
        match r {
            Guarded::Ok(recs) => recs.iter().for_each(|x| w.write(x)),
            _ => tool_error("render harness worker failed"),
        }
    }
    w.finish();
}

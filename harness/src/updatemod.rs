//! C10: the real MarkdownUpdateGenerator on enumerated Markdown documents with per-test outcome classes.

use std::time::Duration;

use scrut::escaping::Escaper;
use scrut::expectation::ExpectationMaker;
use scrut::generators::generator::UpdateGenerator;
use scrut::generators::markdown::MarkdownUpdateGenerator;
use scrut::outcome::Outcome;
use scrut::output::ExitStatus;
use scrut::output::Output;
use scrut::parsers::parser::Parser;
use scrut::parsers::parser::ParserType;
use scrut::rules::registry::RuleRegistry;
use scrut::testcase::TestCase;
use serde_json::json;
use serde_json::Value;

use crate::mdmod::md_parser;
use crate::util::*;

// variant 0: the expression the parsed expectation carries; variant 1: the expression its `original` line parses to
fn pass_output(tc: &TestCase, variant: usize) -> Vec<u8> {
    let maker = ExpectationMaker::new(RuleRegistry::default());
    let mut out = vec![];
    for e in &tc.expectations {
        let (_kind, expr, _o, _m) = if variant == 0 { e.unmake() } else { maker.parse(&e.original_string()).map(|x| x.unmake()).unwrap_or_else(|_| e.unmake()) };
        out.extend(expr);
        out.push(b'\n');
    }
    out
}

fn outputs_for(tests: &[TestCase], classes: &[String], variant: usize) -> Vec<Output> {
    tests.iter().zip(classes.iter()).map(|(tc, c)| {
        let mut stdout = pass_output(tc, variant);
        let mut code = tc.exit_code.unwrap_or(0);
        match c.as_str() {
            // the new line itself starts with a fence followed by text (the rewritten block must be fenced longer)
            "output" => stdout.extend(b"```text NEW LINE\n"),
            "code" => code = 7,
            _ => {}
        }
        Output { stdout: stdout.into(), stderr: vec![].into(), exit_code: ExitStatus::Code(code) }
    }).collect()
}

fn update(text: &str, tests: &[TestCase], outputs: &[Output], escaper: &Escaper) -> Result<anyhow::Result<String>, String> {
    guarded(|| {
        let outcomes: Vec<Outcome> = tests.iter().zip(outputs.iter()).map(|(tc, o)| Outcome {
            location: None, output: o.clone(), testcase: tc.clone(), format: ParserType::Markdown,
            escaping: escaper.clone(), result: tc.validate(o),
        }).collect();
        MarkdownUpdateGenerator::new(&["scrut", "sh"]).generate_update(text, &outcomes.iter().collect::<Vec<_>>())
    })
}

/// find  chunk0 block1 chunk1 ... blockK chunkK  in the updated lines, knowing only the original's chunks
fn decompose(updated: &[&str], chunks: &[Vec<String>]) -> Option<Vec<Value>> {
    let mut pos = 0usize;
    let mut blocks = vec![];
    for (ci, chunk) in chunks.iter().enumerate() {
        for l in chunk {
            if updated.get(pos).copied() != Some(l.as_str()) {
                return None;
            }
            pos += 1;
        }
        if ci + 1 == chunks.len() {
            break;
        }
        // a block must start here
        let open = *updated.get(pos)?;
        let n = open.chars().take_while(|c| *c == '`').count();
        if n < 3 {
            return None;
        }
        let fence = "`".repeat(n);
        let rest = &open[n..];
        pos += 1;
        let mut inner = vec![];
        loop {
            // the block ends at a line of nothing but backticks, at least as many as opened it (the parser accepts a longer
            // closing fence, and `update` may keep it as written) -- or, for the last block of a document whose remaining
            // chunks are empty, at the end of the text (a block the original left unterminated and update kept so)
            let l = match updated.get(pos) {
                Some(l) => *l,
                None if chunks[ci + 1..].iter().all(|c| c.is_empty()) && ci + 2 == chunks.len() => break,
                None => return None,
            };
            pos += 1;
            if l.len() >= fence.len() && l.chars().all(|c| c == '`') {
                break;
            }
            inner.push(l.to_string());
        }
        let ncom = inner.iter().take_while(|l| l.starts_with('#')).count();
        blocks.push(json!({"lang_cfg": rest, "comments": inner[..ncom], "body": inner[ncom..]}));
    }
    if pos != updated.len() {
        return None;
    }
    Some(blocks)
}

fn assignments(t: usize, seed: u64, id: u64) -> Vec<Vec<String>> {
    let names = ["pass", "output", "code"];
    let mut all = vec![vec![]];
    for _ in 0..t {
        all = all.into_iter().flat_map(|a: Vec<String>| names.iter().map(move |n| { let mut b = a.clone(); b.push(n.to_string()); b })).collect();
    }
    if t <= 2 { all } else { (0..6).map(|k| all[pick(seed, id * 31 + k, all.len())].clone()).collect() }
}

/// `update-replay --vectors F --records OUT --seed S`
pub fn replay(args: &[String]) {
    let vectors = read_ndjson(&arg_required(args, "--vectors"));
    let records = arg_required(args, "--records");
    let seed = arg_u64(args, "--seed", 0);
    let items: Vec<(u64, Value)> = vectors.into_iter().enumerate().map(|(i, v)| (i as u64 + 1, v)).collect();
    let results = run_guarded_par(items, Duration::from_secs(60), threads(), move |(id, v): &(u64, Value)| {
        let mut out: Vec<Value> = vec![];
        let segs = v["segs"].as_array().unwrap();
        let ref_ = &v["ref"];
        if ref_["must_err"] == json!(true) || segs.iter().any(|s| s["k"] == json!("verb") && s["lang"] == json!("")) {
            return out;
        }
        let nblocks_cmd = segs.iter().filter(|s| s["hascmd"] == json!(true)).count();
        if nblocks_cmd == 0 {
            return out;
        }
        let lines: Vec<String> = v["lines"].as_array().unwrap().iter().map(|l| l.as_str().unwrap().replace("@U@", "aü").replace("@P@", "Ü")).collect();
        let text = lines.join("\n") + "\n";
        let tests = match guarded(|| md_parser().parse(&text)) {
            Ok(Ok((_c, t))) if t.len() == nblocks_cmd => t,
            _ => return out, // C06's subject
        };
        // chunks of the original (lines outside scrut blocks)
        let mut chunks: Vec<Vec<String>> = vec![vec![]];
        let mut ln = 0usize;
        for s in segs {
            let len = s["len"].as_u64().unwrap() as usize;
            if s["k"] == json!("scrut") {
                chunks.push(vec![]);
            } else {
                chunks.last_mut().unwrap().extend(lines[ln..ln + len].iter().cloned());
            }
            ln += len;
        }
        let line_recs: Vec<Value> = lines.iter().map(|l| json!({"txt": l, "rest": l.trim_start_matches('`')})).collect();
        for (ai, classes) in assignments(nblocks_cmd, seed, *id).into_iter().enumerate() {
            let escaper = if pick(seed, *id + ai as u64, 2) == 0 { Escaper::Unicode } else { Escaper::Ascii };
            // the constructed outputs must realise the intended classes (otherwise the vector is not usable)
            let realises = |outputs: &[Output]| tests.iter().zip(outputs.iter()).zip(classes.iter()).all(|((tc, o), c)| {
                let r = tc.validate(o);
                match c.as_str() { "pass" => r.is_ok(), "output" => matches!(r, Err(scrut::testcase::TestCaseError::MalformedOutput(_))),
                                   _ => matches!(r, Err(scrut::testcase::TestCaseError::InvalidExitCode { .. })) }
            });
            let mut outputs = outputs_for(&tests, &classes, 0);
            if !realises(&outputs) {
                outputs = outputs_for(&tests, &classes, 1);
            }
            if !realises(&outputs) {
                out.push(json!({"ev": "Unrealised", "id": id * 100 + ai as u64}));
                continue;
            }
            let mut obs = json!({"result": "ok", "decomposed": false, "blocks": [], "idempotent": false, "same_commands": false, "reparse_passes": false, "detail": ""});
            let mut updated_text = String::new();
            match update(&text, &tests, &outputs, &escaper) {
                Err(m) => { obs["result"] = json!("panic"); obs["detail"] = json!(m); }
                Ok(Err(e)) => { obs["result"] = json!("err"); obs["detail"] = json!(format!("{e:#}")); }
                Ok(Ok(u)) => {
                    updated_text = u.clone();
                    let ulines: Vec<&str> = u.lines().collect();
                    if let Some(blocks) = decompose(&ulines, &chunks) {
                        obs["decomposed"] = json!(true);
                        obs["blocks"] = json!(blocks);
                    }
                    if let Ok(Ok((_c, tests2))) = guarded(|| md_parser().parse(&u)) {
                        obs["same_commands"] = json!(tests2.len() == tests.len() && tests2.iter().zip(tests.iter()).all(|(a, b)| a.shell_expression == b.shell_expression));
                        if tests2.len() == tests.len() {
                            obs["reparse_passes"] = json!(tests2.iter().zip(outputs.iter()).all(|(tc, o)| tc.validate(o).is_ok()));
                            if let Ok(Ok(u2)) = update(&u, &tests2, &outputs, &escaper) {
                                obs["idempotent"] = json!(u2 == u);
                                if u2 != u { obs["detail"] = json!("second update changed the document"); }
                            }
                        }
                    }
                }
            }
            // outcome class per scrut block ("none" for blocks without a command)
            let mut it = classes.iter();
            let per_block: Vec<String> = segs.iter().filter(|s| s["k"] == json!("scrut"))
                .map(|s| if s["hascmd"] == json!(true) { it.next().unwrap().clone() } else { "none".to_string() }).collect();
            let outs_json: Vec<Value> = outputs.iter().map(|o| json!({"stdout": bytes_to_json(&o.stdout.to_bytes()),
                "code": match o.exit_code { ExitStatus::Code(c) => c, _ => -1 }})).collect();
            out.push(json!({"ev": "Load", "id": id * 100 + ai as u64, "lines": line_recs, "segs": v["segs"], "outcomes": per_block, "outputs": outs_json,
                            "chunks": chunks, "obs": obs, "updated": updated_text, "escaper": format!("{escaper:?}")}));
        }
        out
    });
    let mut w = NdjsonWriter::create(&records);
    for r in results {
        match r {
            Guarded::Ok(recs) => recs.iter().for_each(|x| w.write(x)),
            _ => tool_error("update harness worker failed"),
        }
    }
    w.finish();
}

//! C04: replay of Rules vectors (kind, expression, candidate lines) into the real rule engines.

use std::time::Duration;

use scrut::expectation::ExpectationMaker;
use scrut::rules::glob_cram::CramGlobRule;
use scrut::rules::registry::RuleRegistry;
use scrut::rules::rule::RuleMaker;
use serde_json::json;
use serde_json::Value;

use crate::util::*;

const E_CHOICES: &[&str] = &["é", "ü", "日", "😀"];

/// token -> bytes (see specs/Rules.tla header)
pub fn tok_bytes(tok: &str, e_choice: usize) -> Vec<u8> {
    match tok {
        "E" => E_CHOICES[e_choice % E_CHOICES.len()].as_bytes().to_vec(),
        "B" => b"\\".to_vec(),
        "N" => b"\n".to_vec(),
        "T" => b"\t".to_vec(),
        "R" => b"\r".to_vec(),
        "G" => vec![0x07],
        "S" => vec![0x1b],
        "Z" => vec![0xE9],
        "Y" => vec![0xE8],
        "NE" => b" (no-eol)".to_vec(),
        t if t.starts_with('#') => vec![t[1..].parse::<u16>().unwrap_or_else(|_| tool_error(&format!("bad byte token {t}"))) as u8],
        t => t.as_bytes().to_vec(),
    }
}

pub fn toks_bytes(toks: &Value, e_choice: usize) -> Vec<u8> {
    toks.as_array()
        .unwrap_or_else(|| tool_error("token list expected"))
        .iter()
        .flat_map(|t| tok_bytes(t.as_str().unwrap_or_else(|| tool_error("token must be a string")), e_choice))
        .collect()
}

fn cram_registry() -> RuleRegistry {
    let mut registry = RuleRegistry::default();
    registry.register(CramGlobRule::make, &["glob", "gl"]);
    registry
}

fn one(v: &Value, seed: u64, id: u64) -> Value {
    let kind = v["kind"].as_str().unwrap();
    let e_choice = pick(seed, id, E_CHOICES.len());
    let expr_bytes = toks_bytes(&v["expr"], e_choice);
    let expr = String::from_utf8(expr_bytes).unwrap_or_else(|_| tool_error("expression is not UTF-8"));
    // (registry, expectation text) pairs to try; all must agree with the documented meaning
    let alias = pick(seed, id * 7 + 3, 2) == 1;
    let variants: Vec<(&str, String)> = match kind {
        "regex" | "regex_anch" => vec![("default", format!("{expr} ({})", if alias { "re" } else { "regex" })), ("cram", format!("{expr} (re)"))],
        "glob" => vec![("default", format!("{expr} ({})", if alias { "gl" } else { "glob" })), ("cram", format!("{expr} (glob)"))],
        "cramglob" => vec![("cram", format!("{expr} (glob)"))],
        "globz" => vec![("default", format!("{expr} (glob)"))],
        "escaped" => vec![("default", format!("{expr} ({})", if alias { "esc" } else { "escaped" }))],
        "escglob" => vec![("default", format!("{expr} (escaped) (glob)")), ("cram", format!("{expr} (esc) (glob)"))],
        "equal" => vec![("default", format!("{expr} ({})", if alias { "eq" } else { "equal" }))],
        "no-eol" => vec![("default", format!("{expr} (no-eol)"))],
        k => tool_error(&format!("unknown kind {k}")),
    };
    let mut out_variants = vec![];
    for (reg, text) in variants {
        let maker = ExpectationMaker::new(if reg == "cram" { cram_registry() } else { RuleRegistry::default() });
        let parsed = guarded(|| maker.parse(&text));
        let (parse, obs): (&str, Vec<Value>) = match parsed {
            Err(_) => ("panic", vec![]),
            Ok(Err(_)) => ("err", vec![]),
            Ok(Ok(exp)) => {
                let mut obs = vec![];
                for l in v["lines"].as_array().unwrap() {
                    let bytes = toks_bytes(&l["l"], e_choice);
                    let o = match guarded(|| exp.matches(&bytes)) {
                        Ok(b) => json!(if b { "T" } else { "F" }),
                        Err(_) => json!("P"),
                    };
                    obs.push(json!({"l": l["l"], "o": o}));
                }
                ("ok", obs)
            }
        };
        out_variants.push(json!({"reg": reg, "text": text, "parse": parse, "obs": obs}));
    }
    json!({
        "ev": "Load", "id": id, "kind": kind, "expr": v["expr"], "ast": v.get("ast").cloned().unwrap_or(json!([])),
        "variants": out_variants, "e_choice": E_CHOICES[e_choice],
    })
}

/// `rules-replay --vectors F --records OUT --seed S`
pub fn replay(args: &[String]) {
    let vectors = read_ndjson(&arg_required(args, "--vectors"));
    let records = arg_required(args, "--records");
    let seed = arg_u64(args, "--seed", 0);
    let items: Vec<(u64, Value)> = vectors.into_iter().enumerate().map(|(i, v)| {
        let id = v.get("id").and_then(|x| x.as_u64()).unwrap_or(i as u64 + 1);
        (id, v)
    }).collect();
    let ids: Vec<u64> = items.iter().map(|x| x.0).collect();
    let results = run_guarded_par(items, Duration::from_secs(30), threads(), move |(id, v): &(u64, Value)| one(v, seed, *id));
    let mut w = NdjsonWriter::create(&records);
    for (i, r) in results.into_iter().enumerate() {
        match r {
            Guarded::Ok(rec) => w.write(&rec),
            Guarded::Panic(m) => w.write(&json!({"ev":"Load","id":ids[i],"kind":"crash","expr":[],"ast":[],"variants":[],"crash":m})),
            Guarded::Hang => w.write(&json!({"ev":"Load","id":ids[i],"kind":"crash","expr":[],"ast":[],"variants":[],"crash":"hang"})),
        }
    }
    w.finish();
}

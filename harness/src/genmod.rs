//! C09: generate ; parse ; validate on the real code (create / update paths, Markdown / Cram, both escapers).

use std::time::Duration;

use scrut::config::TestCaseConfig;
use scrut::escaping::Escaper;
use scrut::generators::cram::CramTestCaseGenerator;
use scrut::generators::cram::CramUpdateGenerator;
use scrut::generators::generator::TestCaseGenerator;
use scrut::generators::generator::UpdateGenerator;
use scrut::generators::markdown::MarkdownTestCaseGenerator;
use scrut::generators::markdown::MarkdownUpdateGenerator;
use scrut::outcome::Outcome;
use scrut::output::ExitStatus;
use scrut::output::Output;
use scrut::parsers::parser::Parser;
use scrut::parsers::parser::ParserType;
use scrut::testcase::TestCase;
use serde_json::json;
use serde_json::Value;

use crate::crammod::cram_parser;
use crate::mdmod::md_parser;
use crate::util::*;

fn reps(class: &str) -> Vec<Vec<u8>> {
    let s = |x: &str| x.as_bytes().to_vec();
    match class {
        "plain" => vec![s("hello"), s("foo bar"), s("x")],
        "blank" => vec![s("")],
        "ws_only" => vec![s(" "), s("   ")],
        "trail_ws" => vec![s("foo  "), s("a ")],
        "lead_ws" => vec![s("  foo"), s(" a")],
        "looks_code" => vec![s("[1]"), s("[0]"), s("[255]")],
        "looks_cmd" => vec![s("$ x"), s("$ echo hi")],
        "looks_cont" => vec![s("> x"), s("> more")],
        "fence3" => vec![s("```"), s("```js")],
        "fence4" => vec![s("````"), s("````markdown")],
        "sfx_kind" => vec![s("foo (glob)"), s("bar (re)"), s("x (equal)"), s("done (regex)")],
        "sfx_quant" => vec![s("foo (?)"), s("foo (*)"), s("a (glob+)"), s("b (+)")],
        "sfx_empty" => vec![s("foo ()")],
        "sfx_esc" => vec![s("foo (escaped)"), s("foo (esc)")],
        "sfx_noeol" => vec![s("foo (no-eol)")],
        "bslash" => vec![s("a\\tb"), s("C:\\temp"), s("back\\\\slash")],
        "ctrl" => vec![s("a\tb"), s("\x1b[1mbold\x1b[0m"), s("nul\0byte"), s("cr\rhere")],
        "bslash_ctrl" => vec![s("C:\\temp\x01"), s("a\\\tb")],
        // a carriage return at the end of the line: with CR LF kept (Cram documents) it is content of the line
        "tail_cr" => vec![s("one\r"), s("two \r"), s("\r")],
        // a backslash together with a NON-ASCII character of category "other" (zero width space, BOM) and no ASCII control
        "bslash_other" => vec![s("C:\\temp\u{200b}x"), s("\u{feff}a\\x41"), s("x\u{200d}\\")],
        "utf8" => vec![s("héllo"), s("日本")],
        "utf8_other" => vec![s("a\u{200b}b"), s("x\u{85}y")],
        "invalid_utf8" => vec![b"caf\xe9".to_vec(), b"\xff\xfe".to_vec()],
        "hash" => vec![s("# x"), s("#!shebang")],
        "fence_indent" => vec![s("   ```bash"), s(" ```"), s("  ````")],
        "mid_mod" => vec![s("value (escaped) here"), s("a (no-eol) b"), s("x (glob) y"), s("p (?) q")],
        other => tool_error(&format!("unknown line class {other}")),
    }
}

fn one(id: u64, v: &Value, seed: u64) -> Value {
    let classes: Vec<String> = v["lines"].as_array().unwrap().iter().map(|c| c.as_str().unwrap().to_string()).collect();
    let last_eol = v["lastEol"].as_bool().unwrap();
    let code = v["code"].as_i64().unwrap() as i32;
    let fmt = v["fmt"].as_str().unwrap();
    let esc_name = v["esc"].as_str().unwrap();
    let path = v["path"].as_str().unwrap();
    let escaper = if esc_name == "ascii" { Escaper::Ascii } else { Escaper::Unicode };
    let texts: Vec<Vec<u8>> = classes.iter().enumerate().map(|(i, c)| {
        let r = reps(c);
        r[pick(seed, id * 977 + i as u64, r.len())].clone()
    }).collect();
    let mut out: Vec<u8> = vec![];
    for (i, t) in texts.iter().enumerate() {
        out.extend(t);
        if i + 1 < texts.len() || last_eol {
            out.push(b'\n');
        }
    }
    // the shell expression as the user typed it: one line, a continued line, a here-document with an EMPTY inner line,
    // a line with trailing blanks
    let command = match pick(seed, id * 13 + 5, 6) {
        0 => "cmd arg \\\n  more".to_string(),
        1 => "cmd <<EOT\n\ntext\nEOT".to_string(),
        2 => "cmd arg  ".to_string(),
        _ => "cmd arg".to_string(),
    };
    let (format, config) = if fmt == "md" {
        (ParserType::Markdown, TestCaseConfig::default_markdown())
    } else {
        (ParserType::Cram, TestCaseConfig::default_cram())
    };
    let output = Output { stdout: out.clone().into(), stderr: vec![].into(), exit_code: ExitStatus::Code(code) };
    let parse = |text: &str| -> anyhow::Result<Vec<TestCase>> {
        if fmt == "md" { md_parser().parse(text).map(|x| x.1) } else { cram_parser().parse(text).map(|x| x.1) }
    };
    // the test case that the generation starts from
    let generated: Result<anyhow::Result<String>, String> = guarded(|| {
        if path == "update_pass" || path == "convert_pass" {
            // the passing test to start from is the one `create` writes in the source format
            let src_md = (fmt == "md") != (path == "convert_pass");
            let (sfmt, scfg) = if src_md { (ParserType::Markdown, TestCaseConfig::default_markdown()) } else { (ParserType::Cram, TestCaseConfig::default_cram()) };
            let tc0 = TestCase { title: "A Title".into(), shell_expression: command.clone(), expectations: vec![], exit_code: None, line_number: 0, config: scfg };
            let r0 = tc0.validate(&output);
            let oc0 = Outcome { location: None, output: output.clone(), testcase: tc0, format: sfmt, escaping: escaper.clone(), result: r0 };
            let doc = if src_md { MarkdownTestCaseGenerator::default().generate_testcases(&[&oc0]) } else { CramTestCaseGenerator::default().generate_testcases(&[&oc0]) }
                .map_err(|e| anyhow::anyhow!("harness-skip: create failed: {e:#}"))?;
            let tests = if src_md { md_parser().parse(&doc).map(|x| x.1) } else { cram_parser().parse(&doc).map(|x| x.1) }
                .map_err(|e| anyhow::anyhow!("harness-skip: created document does not parse: {e:#}"))?;
            if tests.len() != 1 || tests[0].shell_expression != command || tests[0].validate(&output).is_err() {
                anyhow::bail!("harness-skip: the created test does not pass (the create path reports that)");
            }
            let oc = Outcome { location: None, output: output.clone(), testcase: tests[0].clone(), format: sfmt, escaping: escaper.clone(), result: Ok(()) };
            if path == "convert_pass" {
                if fmt == "md" { MarkdownTestCaseGenerator::default().generate_testcases(&[&oc]) } else { CramTestCaseGenerator::default().generate_testcases(&[&oc]) }
            } else if fmt == "md" { MarkdownUpdateGenerator::default().generate_update(&doc, &[&oc]) } else { CramUpdateGenerator::default().generate_update(&doc, &[&oc]) }
        } else if path == "create" {
            let tc = TestCase { title: "A Title".into(), shell_expression: command.clone(), expectations: vec![], exit_code: None, line_number: 0, config: config.clone() };
            let result = tc.validate(&output);
            let oc = Outcome { location: None, output: output.clone(), testcase: tc, format, escaping: escaper.clone(), result };
            if fmt == "md" { MarkdownTestCaseGenerator::default().generate_testcases(&[&oc]) } else { CramTestCaseGenerator::default().generate_testcases(&[&oc]) }
        } else {
            // an existing document whose only test fails on output (update_output) or on its exit code (update_code)
            let code_line = if path == "update_code" { Some(9) } else if code != 0 { Some(code) } else { None };
            let cmd_lines: Vec<&str> = command.split('\n').collect();
            // convert: the existing document is in the OTHER format; `fmt` is the format that is written
            let src_md = (fmt == "md") != (path == "convert");
            let doc = if src_md {
                let mut d = String::from("# A Title\n\n```scrut\n");
                d.push_str(&format!("$ {}\n", cmd_lines[0]));
                for l in &cmd_lines[1..] { d.push_str(&format!("> {l}\n")); }
                d.push_str("OLD-EXPECTATION-LINE\n");
                if let Some(c) = code_line { d.push_str(&format!("[{c}]\n")); }
                d.push_str("```\n\nTrailing prose.\n");
                d
            } else {
                let mut d = String::from("A Title\n");
                d.push_str(&format!("  $ {}\n", cmd_lines[0]));
                for l in &cmd_lines[1..] { d.push_str(&format!("  > {l}\n")); }
                d.push_str("  OLD-EXPECTATION-LINE\n");
                if let Some(c) = code_line { d.push_str(&format!("  [{c}]\n")); }
                d
            };
            let tests = if src_md { md_parser().parse(&doc).map(|x| x.1) } else { cram_parser().parse(&doc).map(|x| x.1) }?;
            if tests.len() != 1 { anyhow::bail!("harness: seed document has {} tests", tests.len()); }
            let tc = tests[0].clone();
            let result = tc.validate(&output);
            if result.is_ok() { anyhow::bail!("harness: seed document unexpectedly passes"); }
            if path == "convert" {
                // src/bin/commands/update.rs convert_test: the outcome carries the SOURCE format, the generator is the target's
                let oc = Outcome { location: None, output: output.clone(), testcase: tc, format: if src_md { ParserType::Markdown } else { ParserType::Cram }, escaping: escaper.clone(), result };
                return if fmt == "md" { MarkdownTestCaseGenerator::default().generate_testcases(&[&oc]) } else { CramTestCaseGenerator::default().generate_testcases(&[&oc]) };
            }
            let oc = Outcome { location: None, output: output.clone(), testcase: tc, format, escaping: escaper.clone(), result };
            if fmt == "md" { MarkdownUpdateGenerator::default().generate_update(&doc, &[&oc]) } else { CramUpdateGenerator::default().generate_update(&doc, &[&oc]) }
        }
    });
    let mut obs = json!({"generated": false, "parsed": false, "ntests": 0, "same_cmd": false, "passes": false, "text": "", "detail": ""});
    match generated {
        Err(m) => obs["detail"] = json!(format!("panic in generator: {m}")),
        Ok(Err(e)) => obs["detail"] = json!(format!("generator error: {e:#}")),
        Ok(Ok(text)) => {
            obs["generated"] = json!(true);
            obs["text"] = json!(text);
            match guarded(|| parse(&text)) {
                Err(m) => obs["detail"] = json!(format!("panic in parser: {m}")),
                Ok(Err(e)) => obs["detail"] = json!(format!("parse error: {e:#}").chars().take(160).collect::<String>()),
                Ok(Ok(tests)) => {
                    obs["parsed"] = json!(true);
                    obs["ntests"] = json!(tests.len());
                    if tests.len() == 1 {
                        obs["same_cmd"] = json!(tests[0].shell_expression == command);
                        match guarded(|| tests[0].validate(&output)) {
                            Ok(Ok(())) => obs["passes"] = json!(true),
                            Ok(Err(e)) => obs["detail"] = json!(format!("{e:?}").chars().take(200).collect::<String>()),
                            Err(m) => obs["detail"] = json!(format!("panic in validate: {m}")),
                        }
                    }
                }
            }
        }
    }
    let skipped = obs["detail"].as_str().map(|d| d.contains("harness-skip")).unwrap_or(false);
    json!({"ev": if skipped { "Skip" } else { "Load" }, "id": id, "lines": v["lines"], "lastEol": last_eol, "code": code, "fmt": fmt, "esc": esc_name, "path": path,
           "output": String::from_utf8_lossy(&out), "output_bytes": bytes_to_json(&out), "command": command, "obs": obs})
}

/// `gen-replay --vectors F --records OUT --seed S`
pub fn replay(args: &[String]) {
    let vectors = read_ndjson(&arg_required(args, "--vectors"));
    let records = arg_required(args, "--records");
    let seed = arg_u64(args, "--seed", 0);
    let items: Vec<(u64, Value)> = vectors.into_iter().enumerate().map(|(i, v)| (v.get("id").and_then(|x| x.as_u64()).unwrap_or(i as u64 + 1), v)).collect();
    let results = run_guarded_par(items, Duration::from_secs(60), threads(), move |(id, v): &(u64, Value)| one(*id, v, v.get("seed").and_then(|x| x.as_u64()).unwrap_or(seed)));
    let mut w = NdjsonWriter::create(&records);
    for r in results {
        match r {
            Guarded::Ok(rec) => w.write(&rec),
            _ => tool_error("gen harness worker failed"),
        }
    }
    w.finish();
}

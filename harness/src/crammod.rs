//! C07: replay of CramDoc vectors into the real CramParser.

use std::sync::Arc;
use std::time::Duration;

use scrut::config::OutputStreamControl;
use scrut::expectation::ExpectationMaker;
use scrut::parsers::cram::CramParser;
use scrut::parsers::cram::DEFAULT_CRAM_INDENTION;
use scrut::parsers::parser::Parser;
use scrut::rules::glob_cram::CramGlobRule;
use scrut::rules::registry::RuleRegistry;
use scrut::rules::rule::RuleMaker;
use serde_json::json;
use serde_json::Value;

use crate::mdmod::render_text;
use crate::util::*;

pub fn cram_parser() -> CramParser {
    let mut registry = RuleRegistry::default();
    registry.register(CramGlobRule::make, &["glob", "gl"]);
    CramParser::new(Arc::new(ExpectationMaker::new(registry)), DEFAULT_CRAM_INDENTION)
}

pub fn parse_project(text: &str) -> Value {
    match guarded(|| cram_parser().parse(text)) {
        Err(msg) => json!({"result": "panic", "tests": [], "msg": msg}),
        Ok(Err(e)) => json!({"result": "err", "tests": [], "msg": format!("{e:#}").chars().take(200).collect::<String>()}),
        Ok(Ok((_cfg, tests))) => json!({"result": "ok", "msg": "", "tests": tests.iter().map(|tc| json!({
            "cmd": tc.shell_expression.split('\n').collect::<Vec<_>>(),
            "exps": tc.expectations.iter().map(|e| e.original_string()).collect::<Vec<_>>(),
            "code": tc.exit_code.map(|c| c.to_string()).unwrap_or_default(),
            "line": tc.line_number,
            "title": tc.title,
            "cfg_ok": tc.config.output_stream == Some(OutputStreamControl::Combined) && tc.config.keep_crlf == Some(true),
        })).collect::<Vec<_>>()}),
    }
}

/// `cram-replay --vectors F --records OUT`
pub fn replay(args: &[String]) {
    let vectors = read_ndjson(&arg_required(args, "--vectors"));
    let records = arg_required(args, "--records");
    let items: Vec<(u64, Value)> = vectors.into_iter().enumerate().map(|(i, v)| (i as u64 + 1, v)).collect();
    let n = items.len();
    let results = run_guarded_par(items, Duration::from_secs(30), threads(), |(id, v): &(u64, Value)| {
        let lines: Vec<String> = v["lines"].as_array().unwrap().iter().map(|l| l.as_str().unwrap().to_string()).collect();
        let mut out = vec![];
        for (vi, (crlf, fnl)) in [(false, true), (true, true), (false, false)].iter().enumerate() {
            // without a final newline a last line that is empty vanishes: that rendering is a different document
            if !*fnl && lines.last().map_or(true, |l| l.is_empty()) {
                continue;
            }
            let text = render_text(&lines, *crlf, *fnl);
            out.push(json!({"ev": "Load", "id": id * 10 + vi as u64, "vid": id, "crlf": crlf, "final_newline": fnl,
                            "ref": v["ref"], "obs": parse_project(&text), "lines": v["lines"]}));
        }
        out
    });
    let mut w = NdjsonWriter::create(&records);
    let mut bad = 0;
    for r in results {
        match r {
            Guarded::Ok(recs) => recs.iter().for_each(|x| w.write(x)),
            _ => bad += 1,
        }
    }
    w.finish();
    if bad > 0 {
        tool_error(&format!("{bad} of {n} cram vectors could not be processed by the harness"));
    }
}

//! C12: histories of state-changing shell snippets (from specs/ShellCarrier.tla) are run through the real
//! StatefulExecutor + BashRunner (one process per test case) and, as cross-check, through ONE bash session.

use std::collections::BTreeMap;
use std::path::Path;
use std::path::PathBuf;
use std::process::Command;
use std::time::Duration;

use scrut::config::DocumentConfig;
use scrut::config::TestCaseConfig;
use scrut::executors::bash_runner::BashRunner;
use scrut::executors::context::ContextBuilder;
use scrut::executors::executor::Executor;
use scrut::executors::bash_script_executor::BashScriptExecutor;
use scrut::executors::stateful_executor::StatefulExecutor;
use scrut::output::ExitStatus;
use scrut::testcase::TestCase;
use serde_json::json;
use serde_json::Value;

use crate::util::*;

fn value_of(class: &str) -> &'static str {
    match class {
        "plain" => "abc",
        "spaces" => "a b  c",
        "squote" => "it's",
        "dquote" => "say \"hi\"",
        "newline" => "l1\nl2",
        "utf8" => "héllo ü",
        "empty" => "",
        "glob_chars" => "*.txt ?[a]",
        "dollar" => "$HOME `x` \\n",
        other => tool_error(&format!("unknown value class {other}")),
    }
}

fn class_of(bytes: &[u8]) -> String {
    for c in ["plain", "spaces", "squote", "dquote", "newline", "utf8", "empty", "glob_chars", "dollar"] {
        if value_of(c).as_bytes() == bytes {
            return c.to_string();
        }
    }
    format!("other:{}", String::from_utf8_lossy(bytes))
}

fn ansi_c_quote(s: &str) -> String {
    let mut out = String::from("$'");
    for ch in s.chars() {
        match ch {
            '\\' => out.push_str("\\\\"),
            '\'' => out.push_str("\\'"),
            '\n' => out.push_str("\\n"),
            c => out.push(c),
        }
    }
    out.push('\'');
    out
}

fn dir_of(d: &str) -> &'static str {
    match d { "base" => "\"$BASE\"", "sub1" => "\"$BASE/sub1\"", _ => "\"$BASE/sub2\"" }
}

fn snippet(op: &Value) -> String {
    let a = op["a"].as_str().unwrap_or("-");
    let b = op["b"].as_str().unwrap_or("-");
    let c = op["c"].as_str().unwrap_or("-");
    match op["op"].as_str().unwrap() {
        "setvar" => match b {
            "scalar" => format!("unset {a}; {a}={}", ansi_c_quote(value_of(c))),
            "indexed" => format!("unset {a}; {a}=({} second)", ansi_c_quote(value_of(c))),
            _ => format!("unset {a}; declare -A {a}=([k]={} [other]=x)", ansi_c_quote(value_of(c))),
        },
        "setexported" => format!("unset {a}; export {a}={}", ansi_c_quote(value_of(c))),
        // given through the test case's `environment` configuration (see `one`): nothing to type in the real run
        "cfgenv" => ":".to_string(),
        "unsetvar" => format!("unset {a}"),
        "export" => format!("export {a}"),
        "unexport" => format!("export -n {a}"),
        "deffunc" if b == "2" => format!("{a}() {{ case ab in +(a|b)) echo F2;; esac; }}"),
        // the body calls the alias name (expanded, or not, when the definition is READ)
        "deffunc" if b == "3" => format!("{a}() {{ a1 F3; }}"),
        "deffunc" => format!("{a}() {{ echo F{b}; }}"),
        "unsetfunc" => format!("unset -f {a}"),
        "defalias" => format!("alias {a}='echo A{b}'"),
        "unalias" => format!("unalias {a}"),
        "setopt" => format!("set {}o {a}", if b == "on" { "-" } else { "+" }),
        "shopt" => format!("shopt -{} {a}", if b == "on" { "s" } else { "u" }),
        "cd" => format!("cd {}", dir_of(a)),
        "setoptind" => format!("OPTIND={a}"),
        "pushd" => format!("pushd {} >/dev/null", dir_of(a)),
        "popd" => "popd >/dev/null".to_string(),
        // STMP is the temporary directory of the real run (given like BASE); the reference session has no such variable
        "cleantmp" => "[ -n \"${STMP:-}\" ] && find \"$STMP\" -mindepth 1 -delete; :".to_string(),
        other => tool_error(&format!("unknown op {other}")),
    }
}

const PROBE: &str = r#"for __pn in v1 BASH_MYVAR TMPDIR_ORIG; do
  if __pk=$(declare -p "$__pn" 2>/dev/null); then
    __pf="${__pk%% "$__pn"*}"
    case "$__pf" in *-*A*) __kind=assoc;; *-*a*) __kind=indexed;; *) __kind=scalar;; esac
    case "$__pf" in *-*x*) __ex=1;; *) __ex=0;; esac
    case $__kind in scalar) __val="${!__pn}";; indexed) eval "__val=\"\${$__pn[0]}\"";; assoc) eval "__val=\"\${$__pn[k]}\"";; esac
    printf 'var %s %s %s ' "$__pn" "$__kind" "$__ex"; printf '%s' "$__val" | od -An -v -tx1 | tr -d ' \n'; echo
    if __e=$(printenv "$__pn"); then printf 'env %s ' "$__pn"; printf '%s' "$__e" | od -An -v -tx1 | tr -d ' \n'; echo; else echo "env $__pn -"; fi
  else echo "var $__pn unset 0 "; echo "env $__pn -"; fi
done
if declare -F f1 >/dev/null; then __fb=$(declare -f f1); case "$__fb" in *F2*) echo "func f1 F2";; *F1*) echo "func f1 F1";; *"a1 F3"*) echo "func f1 F3";; *"echo A1 F3"*) echo "func f1 F3e1";; *"echo A2 F3"*) echo "func f1 F3e2";; *) echo "func f1 F?";; esac; else echo "func f1 F0"; fi
if __a=$(alias a1 2>/dev/null); then echo "alias a1 ${__a: -2:1}"; else echo "alias a1 0"; fi
echo "opts $(set +o | grep -E ' (noglob|nounset|pipefail|noclobber)$' | grep -- ' -o ' | sed 's/.* //' | sort | tr '\n' ' ')"
echo "shopts $(shopt -p extglob nullglob dotglob | grep -- ' -s ' | sed 's/.* //' | sort | tr '\n' ' ')"
echo "optind $OPTIND"
echo "cwd ${PWD#"$BASE"}"
dirs -p -l | tail -n +2 | while IFS= read -r __d; do echo "stack ${__d#"$BASE"}"; done
unset __pn __pk __pf __kind __ex __val __e __a __d
"#;

fn unhex(h: &str) -> Vec<u8> {
    (0..h.len() / 2).filter_map(|i| u8::from_str_radix(&h[2 * i..2 * i + 2], 16).ok()).collect()
}

fn rel_dir(s: &str) -> String {
    match s { "" => "base".into(), "/sub1" => "sub1".into(), "/sub2" => "sub2".into(), other => format!("other:{other}") }
}

/// probe text of one test case -> abstract state in the shape of the spec
fn parse_probe(text: &str) -> Value {
    let mut vars: BTreeMap<String, Value> = BTreeMap::new();
    let mut envs: BTreeMap<String, String> = BTreeMap::new();
    let (mut func, mut alias, mut opts, mut shopts, mut cwd, mut stack) = ("?".to_string(), "?".to_string(), vec![], vec![], "?".to_string(), vec![]);
    let mut optind = "?".to_string();
    let mut junk = vec![];
    for line in text.lines() {
        let parts: Vec<&str> = line.splitn(5, ' ').collect();
        match parts[0] {
            "var" if parts.len() >= 4 => {
                let kind = parts[2];
                let val = if kind == "unset" { "-".to_string() } else { class_of(&unhex(parts.get(4).copied().unwrap_or(""))) };
                vars.insert(parts[1].to_string(), json!({"kind": kind, "ex": parts[3] == "1", "val": val}));
            }
            "env" if parts.len() >= 3 => { envs.insert(parts[1].to_string(), if parts[2] == "-" { "-".into() } else { class_of(&unhex(parts[2])) }); }
            "func" => func = line.trim_start_matches("func f1 F").to_string(),
            "alias" => alias = line.trim_start_matches("alias a1 ").to_string(),
            "opts" => opts = line.split_whitespace().skip(1).map(|s| s.to_string()).collect(),
            "shopts" => shopts = line.split_whitespace().skip(1).map(|s| s.to_string()).collect(),
            "optind" => optind = line.trim_start_matches("optind").trim().to_string(),
            "cwd" => cwd = rel_dir(line.trim_start_matches("cwd").trim_start()),
            "stack" => stack.push(rel_dir(line.trim_start_matches("stack").trim_start())),
            _ => junk.push(line.to_string()),
        }
    }
    // exported <=> visible in the environment with the same value (scalars)
    let mut env_ok = true;
    for (n, v) in &vars {
        let e = envs.get(n).cloned().unwrap_or_else(|| "-".into());
        let expect = if v["ex"] == json!(true) && v["kind"] == json!("scalar") { v["val"].as_str().unwrap().to_string() } else { "-".to_string() };
        if e != expect { env_ok = false; }
    }
    json!({"vars": vars, "funcs": {"f1": func}, "aliases": {"a1": alias}, "opts": opts, "shopts": shopts, "cwd": cwd, "stack": stack, "optind": optind,
           "env_ok": env_ok, "junk": junk})
}

fn split_marked(text: &str, n: usize) -> Vec<Option<String>> {
    // sections start with a line "@@@ k"
    let mut out: Vec<Option<String>> = vec![None; n];
    let mut cur: Option<usize> = None;
    for line in text.lines() {
        if let Some(k) = line.strip_prefix("@@@ ") {
            cur = k.trim().parse::<usize>().ok().map(|x| x - 1);
            if let Some(c) = cur { if c < n { out[c] = Some(String::new()); } }
        } else if let Some(c) = cur {
            if c < n { let s = out[c].get_or_insert_with(String::new); s.push_str(line); s.push('\n'); }
        }
    }
    out
}

fn one(id: u64, v: &Value, bash: &Path) -> Value {
    let hist = v["hist"].as_array().unwrap();
    let n = hist.len();
    let root = tempfile::Builder::new().prefix("scrut-verif-shell-").tempdir().unwrap_or_else(|e| tool_error(&format!("tempdir: {e}")));
    let mk = |name: &str| -> PathBuf { let p = root.path().join(name); std::fs::create_dir_all(p.join("sub1")).ok(); std::fs::create_dir_all(p.join("sub2")).ok(); p };
    let (work, tmp, single_dir) = (mk("work"), mk("tmp"), mk("single"));
    // ---- the real executor: one process per test case
    let mut tcs: Vec<TestCase> = vec![];
    for (k, t) in hist.iter().enumerate() {
        let ops: Vec<String> = t["ops"].as_array().unwrap().iter().map(snippet).collect();
        let detached = t["detached"].as_bool().unwrap();
        let mut config = TestCaseConfig::default_markdown();
        config.environment.insert("BASE".into(), work.to_string_lossy().to_string());
        config.environment.insert("STMP".into(), tmp.to_string_lossy().to_string());
        // `detached: false` written out must mean the same as leaving it out
        if detached { config.detached = Some(true); } else if (id + k as u64) % 2 == 0 && v.get("exec").and_then(|x| x.as_str()) != Some("script") { config.detached = Some(false); }
        for o in t["ops"].as_array().unwrap() {
            if o["op"] == json!("cfgenv") { config.environment.insert(o["a"].as_str().unwrap().to_string(), value_of(o["c"].as_str().unwrap()).to_string()); }
        }
        // the output of a detached test case is not captured: its probe goes to a file (redirected with `exec`, so that the
        // expression is still read command by command), which is read after the run
        let det_q = ansi_c_quote(&root.path().join(format!("det_{}.out", k + 1)).to_string_lossy());
        let expr = if detached { format!("exec >| {}.tmp 2>/dev/null\n{}\necho '@@@ {}'\n{}\nmv {}.tmp {}", det_q, ops.join("\n"), k + 1, PROBE, det_q, det_q) }
                   else { format!("{}\necho '@@@ {}'\n{}", ops.join("\n"), k + 1, PROBE) };
        // a detached test case is started in the background and restores the state file whenever it gets to run: on a loaded
        // machine that can be AFTER the following test cases have written theirs, and what it observes is then a matter of
        // scheduling, not of the carrier. The harness orders the two: a detached test case announces that it is running
        // (the state is restored before its expression starts), and the test case after it waits for that (in a subshell:
        // nothing is left behind in the shell state)
        let started = |n: usize| ansi_c_quote(&root.path().join(format!("det_{}.started", n)).to_string_lossy());
        let expr = if detached { format!(": >| {}\n{}", started(k + 1), expr) } else { expr };
        let expr = if k > 0 && hist[k - 1]["detached"] == json!(true) {
            format!("( for __w in $(seq 1 300); do [ -e {} ] && break; sleep 0.1; done )\n{}", started(k), expr)
        } else { expr };
        tcs.push(TestCase { title: format!("t{}", k + 1), shell_expression: expr, expectations: vec![], exit_code: None, line_number: k + 1, config });
    }
    // detached test cases run in the background while the executor goes on; when it is done it removes the state directory.
    // A sentinel test case at the end keeps the executor alive until every detached test case has written its probe file
    // (otherwise a detached LAST test case races with the clean-up and may find no state to restore)
    let det_files: Vec<String> = hist.iter().enumerate().filter(|(_, t)| t["detached"] == json!(true))
        .map(|(k, _)| ansi_c_quote(&root.path().join(format!("det_{}.out", k + 1)).to_string_lossy())).collect();
    if !det_files.is_empty() {
        let expr = format!("for __f in {}; do for __i in $(seq 1 100); do [ -e \"$__f\" ] && break; sleep 0.1; done; done", det_files.join(" "));
        tcs.push(TestCase { title: "sentinel".into(), shell_expression: expr, expectations: vec![], exit_code: None, line_number: n + 1, config: TestCaseConfig::default_markdown() });
    }
    // the single-script executor takes ONE configuration: the configured variables of the first test case are the
    // document's environment, given to every test case (as the test command does with document defaults)
    let script_exec = v.get("exec").and_then(|x| x.as_str()) == Some("script");
    if script_exec {
        let env = tcs[0].config.environment.clone();
        for tc in tcs.iter_mut() { tc.config.environment = env.clone(); }
    }
    let refs: Vec<&TestCase> = tcs.iter().collect();
    let ctx = ContextBuilder::default().work_directory(work.clone()).temp_directory(tmp.clone()).file(PathBuf::from("doc.md"))
        .config(DocumentConfig::default_markdown()).build().unwrap_or_else(|e| tool_error(&format!("context: {e}")));
    let mut obs: Vec<Value> = vec![];
    let mut exec_note = String::new();
    let executed = guarded(|| if script_exec { BashScriptExecutor::new(bash).execute_all(&refs, &ctx) }
                              else { StatefulExecutor::new(BashRunner::stateful_generator(bash)).execute_all(&refs, &ctx) });
    match executed {
        Ok(Ok(outputs)) => {
            for (k, o) in outputs.iter().enumerate().take(n) {
                if hist[k]["detached"] != json!(true) && o.exit_code == ExitStatus::Detached {
                    // run as detached although it is not configured so: nothing to wait for, nothing observed
                    obs.push(json!({"missing": "executed as a detached test case although `detached` is not set (or set to false)"}));
                } else if hist[k]["detached"] == json!(true) {
                    // what the detached test case saw and did: its probe file (it runs in the background: wait for it)
                    let f = root.path().join(format!("det_{}.out", k + 1));
                    let mut tries = 0;
                    while !f.exists() && tries < 100 { std::thread::sleep(Duration::from_millis(100)); tries += 1; }
                    match std::fs::read(&f).ok().and_then(|b| split_marked(&String::from_utf8_lossy(&b), n).get(k).cloned().flatten()) {
                        Some(section) => { let mut p = parse_probe(&section); p["detached"] = json!(true); obs.push(p) }
                        None => obs.push(json!({"detached": true})),      // not observed (not judged; counted)
                    }
                } else {
                    let text = String::from_utf8_lossy(&o.stdout.to_bytes()).to_string();
                    match split_marked(&text, n).get(k).cloned().flatten() {
                        Some(section) => { let mut p = parse_probe(&section); p["stderr"] = json!(String::from_utf8_lossy(&o.stderr.to_bytes()).chars().take(200).collect::<String>()); obs.push(p) }
                        None => obs.push(json!({"missing": format!("no probe output; exit {:?}; stderr {}", o.exit_code, String::from_utf8_lossy(&o.stderr.to_bytes()).chars().take(200).collect::<String>())})),
                    }
                }
            }
        }
        Ok(Err(e)) => exec_note = format!("execution error: {e}"),
        Err(m) => exec_note = format!("panic: {m}"),
    }
    while obs.len() < n { obs.push(json!({"missing": exec_note.clone()})); }
    // ---- cross-check: ONE bash session
    // (typed into ONE session: aliases are expanded as in an interactive shell -- scrut's runner sets the same option)
    let mut script = format!("shopt -s expand_aliases\nexport BASE={}\ncd \"$BASE\"\n", ansi_c_quote(&single_dir.to_string_lossy()));
    for (k, t) in hist.iter().enumerate() {
        // in the one session a configured variable is an exported variable set before the expression
        let ops: Vec<String> = t["ops"].as_array().unwrap().iter().map(|o| if o["op"] == json!("cfgenv") {
            format!("export {}={}", o["a"].as_str().unwrap(), ansi_c_quote(value_of(o["c"].as_str().unwrap()))) } else { snippet(o) }).collect();
        if t["detached"] == json!(true) {
            // by definition a detached test case leaves nothing behind in the session
            script.push_str(":\n");
        } else {
            script.push_str(&format!("{}\necho '@@@ {}'\n{}", ops.join("\n"), k + 1, PROBE));
        }
    }
    let mut single_out = Command::new(bash).arg("-c").arg(&script).current_dir(&single_dir).output();
    for _ in 0..5 {
        if single_out.is_ok() { break; }
        std::thread::sleep(Duration::from_millis(300));     // EAGAIN under process pressure
        single_out = Command::new(bash).arg("-c").arg(&script).current_dir(&single_dir).output();
    }
    let single: Vec<Value> = match single_out {
        Ok(o) => split_marked(&String::from_utf8_lossy(&o.stdout), n).into_iter().enumerate().map(|(k, s)| {
            if hist[k]["detached"] == json!(true) { json!({"detached": true}) } else { s.map(|x| parse_probe(&x)).unwrap_or(json!({"missing": "single"})) }
        }).collect(),
        Err(e) => tool_error(&format!("cannot run bash: {e}")),
    };
    // give detached processes a moment before the scratch directory disappears
    if hist.iter().any(|t| t["detached"] == json!(true)) { std::thread::sleep(Duration::from_millis(50)); }
    json!({"ev": "Load", "id": id, "hist": v["hist"], "ref": v["ref"], "obs": obs, "single": single, "exec": if script_exec { "script" } else { "process" }})
}

/// `shell-replay --vectors F --records OUT`
pub fn replay(args: &[String]) {
    let vectors = read_ndjson(&arg_required(args, "--vectors"));
    let records = arg_required(args, "--records");
    let bash = PathBuf::from(arg_value(args, "--bash").unwrap_or_else(|| "/bin/bash".into()));
    let items: Vec<(u64, Value)> = vectors.into_iter().enumerate().map(|(i, v)| (v.get("id").and_then(|x| x.as_u64()).unwrap_or(i as u64 + 1), v)).collect();
    let results = run_guarded_par_retry(items, Duration::from_secs(120), threads(), move |(id, v): &(u64, Value)| one(*id, v, &bash));
    let mut w = NdjsonWriter::create(&records);
    for r in results {
        match r {
            Guarded::Ok(rec) => w.write(&rec),
            Guarded::Panic(m) => tool_error(&format!("shell harness worker failed twice (panic: {m})")),
            Guarded::Hang => tool_error("shell harness worker failed twice (no result within the limit)"),
        }
    }
    w.finish();
}

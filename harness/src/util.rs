//! Shared helpers: guarded execution (panic / hang are data), ndjson I/O, seeded choice.

use std::fs::File;
use std::io::BufRead;
use std::io::BufReader;
use std::io::BufWriter;
use std::io::Write;
use std::panic::AssertUnwindSafe;
use std::sync::mpsc;
use std::sync::Arc;
use std::time::Duration;

use serde_json::Value;

pub enum Guarded<R> {
    Ok(R),
    Panic(String),
    Hang,
}

pub fn silence_panics() {
    std::panic::set_hook(Box::new(|_| {}));
}

fn panic_message(e: Box<dyn std::any::Any + Send>) -> String {
    if let Some(s) = e.downcast_ref::<&str>() {
        s.to_string()
    } else if let Some(s) = e.downcast_ref::<String>() {
        s.clone()
    } else {
        "panic".to_string()
    }
}

/// Run `f` once, catching panics
pub fn guarded<R>(f: impl FnOnce() -> R) -> Result<R, String> {
    std::panic::catch_unwind(AssertUnwindSafe(f)).map_err(panic_message)
}

/// Parallel version of [`run_guarded`]: items are split into contiguous chunks, one per thread;
/// the result order is the item order.
pub fn run_guarded_par<T, R, F>(items: Vec<T>, limit: Duration, threads: usize, f: F) -> Vec<Guarded<R>>
where
    T: Send + Sync + 'static,
    R: Send + 'static,
    F: Fn(&T) -> R + Send + Sync + Clone + 'static,
{
    let threads = threads.max(1);
    let total = items.len();
    let chunk = total.div_ceil(threads).max(1);
    let mut chunks: Vec<Vec<T>> = vec![];
    let mut it = items.into_iter();
    loop {
        let c: Vec<T> = it.by_ref().take(chunk).collect();
        if c.is_empty() {
            break;
        }
        chunks.push(c);
    }
    let handles: Vec<_> = chunks
        .into_iter()
        .map(|c| {
            let f = f.clone();
            std::thread::spawn(move || run_guarded(c, limit, f))
        })
        .collect();
    let mut out = Vec::with_capacity(total);
    for h in handles {
        out.extend(h.join().expect("chunk thread"));
    }
    out
}

/// like `run_guarded_par`, but an item that produced no result (hang under load, panic) is run once more on its own
/// with five times the limit before it is given up (harnesses whose workers start real processes use this: on a loaded
/// machine a worker can miss its limit without anything being wrong)
pub fn run_guarded_par_retry<T, R, F>(items: Vec<T>, limit: Duration, threads: usize, f: F) -> Vec<Guarded<R>>
where
    T: Send + Sync + Clone + 'static,
    R: Send + 'static,
    F: Fn(&T) -> R + Send + Sync + Clone + 'static,
{
    let copy = items.clone();
    let mut out = run_guarded_par(items, limit, threads, f.clone());
    for i in 0..out.len() {
        if !matches!(out[i], Guarded::Ok(_)) {
            let why = match &out[i] { Guarded::Panic(m) => format!("panic: {m}"), Guarded::Hang => "no result within the limit".to_string(), _ => String::new() };
            eprintln!("harness worker: item {i} failed ({why}); running it once more on its own");
            let mut again = run_guarded(vec![copy[i].clone()], limit * 5, f.clone());
            out[i] = again.remove(0);
        }
    }
    out
}

pub fn threads() -> usize {
    std::env::var("VERIF_THREADS")
        .ok()
        .and_then(|v| v.parse().ok())
        .unwrap_or_else(|| std::thread::available_parallelism().map(|n| n.get()).unwrap_or(4).min(12))
}

/// Run `f` over all items on a worker thread (big stack); a panic or a hang (no result within
/// `limit`) of one item is recorded and the remaining items continue on a fresh thread.
pub fn run_guarded<T, R, F>(items: Vec<T>, limit: Duration, f: F) -> Vec<Guarded<R>>
where
    T: Send + Sync + 'static,
    R: Send + 'static,
    F: Fn(&T) -> R + Send + Sync + 'static,
{
    let items = Arc::new(items);
    let f = Arc::new(f);
    let mut results: Vec<Guarded<R>> = Vec::with_capacity(items.len());
    let mut start = 0usize;
    while start < items.len() {
        let (tx, rx) = mpsc::channel::<(usize, Result<R, String>)>();
        let items2 = items.clone();
        let f2 = f.clone();
        let begin = start;
        std::thread::Builder::new()
            .stack_size(64 << 20)
            .spawn(move || {
                for i in begin..items2.len() {
                    let r = std::panic::catch_unwind(AssertUnwindSafe(|| f2(&items2[i])))
                        .map_err(panic_message);
                    if tx.send((i, r)).is_err() {
                        return;
                    }
                }
            })
            .expect("spawn worker");
        loop {
            if results.len() == items.len() {
                start = items.len();
                break;
            }
            match rx.recv_timeout(limit) {
                Ok((_i, Ok(r))) => results.push(Guarded::Ok(r)),
                Ok((_i, Err(msg))) => results.push(Guarded::Panic(msg)),
                Err(mpsc::RecvTimeoutError::Timeout) => {
                    results.push(Guarded::Hang);
                    start = results.len();
                    break; // leak the stuck thread, continue after it
                }
                Err(mpsc::RecvTimeoutError::Disconnected) => {
                    // worker died (e.g. stack overflow would abort the process; this is a plain exit)
                    start = results.len();
                    if start < items.len() {
                        results.push(Guarded::Panic("worker thread died".into()));
                        start += 1;
                    }
                    break;
                }
            }
        }
    }
    results
}

pub fn read_ndjson(path: &str) -> Vec<Value> {
    let file = File::open(path).unwrap_or_else(|e| tool_error(&format!("open {path}: {e}")));
    BufReader::new(file)
        .lines()
        .map(|l| l.expect("read line"))
        .filter(|l| !l.trim().is_empty())
        .map(|l| serde_json::from_str(&l).unwrap_or_else(|e| tool_error(&format!("json {e}: {l}"))))
        .collect()
}

pub struct NdjsonWriter(BufWriter<File>);

impl NdjsonWriter {
    pub fn create(path: &str) -> Self {
        Self(BufWriter::new(File::create(path).unwrap_or_else(|e| {
            tool_error(&format!("create {path}: {e}"))
        })))
    }
    pub fn write(&mut self, v: &Value) {
        serde_json::to_writer(&mut self.0, v).expect("write json");
        self.0.write_all(b"\n").expect("write nl");
    }
    pub fn write_raw(&mut self, line: &str) {
        self.0.write_all(line.as_bytes()).expect("write");
        self.0.write_all(b"\n").expect("write nl");
    }
    pub fn finish(mut self) {
        self.0.flush().expect("flush");
    }
}

/// exit code 2 = error of the verification machinery itself (never a property verdict)
pub fn tool_error(msg: &str) -> ! {
    eprintln!("TOOL-ERROR: {msg}");
    std::process::exit(2);
}

/// Tiny deterministic hash-based chooser: same (seed, salt) gives same choice
pub fn pick(seed: u64, salt: u64, n: usize) -> usize {
    let mut x = seed
        .wrapping_mul(0x9E37_79B9_7F4A_7C15)
        .wrapping_add(salt.wrapping_mul(0xBF58_476D_1CE4_E5B9))
        .wrapping_add(0x94D0_49BB_1331_11EB);
    x ^= x >> 30;
    x = x.wrapping_mul(0xBF58_476D_1CE4_E5B9);
    x ^= x >> 27;
    x = x.wrapping_mul(0x94D0_49BB_1331_11EB);
    x ^= x >> 31;
    (x % (n.max(1) as u64)) as usize
}

pub fn arg_value(args: &[String], name: &str) -> Option<String> {
    args.iter()
        .position(|a| a == name)
        .and_then(|i| args.get(i + 1).cloned())
}

pub fn arg_required(args: &[String], name: &str) -> String {
    arg_value(args, name).unwrap_or_else(|| tool_error(&format!("missing argument {name}")))
}

pub fn arg_u64(args: &[String], name: &str, default: u64) -> u64 {
    arg_value(args, name)
        .map(|v| v.parse().unwrap_or_else(|_| tool_error(&format!("bad number for {name}"))))
        .unwrap_or(default)
}

pub fn bytes_to_json(bytes: &[u8]) -> Value {
    Value::Array(bytes.iter().map(|b| Value::from(*b as u64)).collect())
}

//! C16: the real configuration layering functions applied in the call order of parser, test command and executor.

use std::path::PathBuf;
use std::time::Duration;

use scrut::config::DocumentConfig;
use scrut::config::OutputStreamControl;
use scrut::config::TestCaseConfig;
use scrut::config::TestCaseWait;
use serde_json::json;
use serde_json::Value;

use crate::util::*;

const KEYS: &[&str] = &["output_stream", "keep_crlf", "timeout", "detached", "skip_document_code", "strip_ansi_escaping", "wait"];

fn wait_of(v: &str) -> Option<TestCaseWait> {
    match v {
        "A" => Some(TestCaseWait { timeout: Duration::from_secs(1), path: None }),
        "B" => Some(TestCaseWait { timeout: Duration::from_secs(2), path: Some(PathBuf::from("ready.sock")) }),
        _ => None,
    }
}

pub fn layer_to_config(l: &Value) -> TestCaseConfig {
    let s = |k: &str| l["scalar"][k].as_str().unwrap_or("U").to_string();
    let pick2 = |k: &str, a: bool, b: bool| match s(k).as_str() { "A" => Some(a), "B" => Some(b), _ => None };
    let mut c = TestCaseConfig::empty();
    c.output_stream = match s("output_stream").as_str() { "A" => Some(OutputStreamControl::Stderr), "B" => Some(OutputStreamControl::Combined), _ => None };
    c.keep_crlf = pick2("keep_crlf", true, false);
    c.timeout = match s("timeout").as_str() { "A" => Some(Duration::from_secs(3)), "B" => Some(Duration::from_secs(7)), _ => None };
    c.detached = pick2("detached", true, false);
    c.skip_document_code = match s("skip_document_code").as_str() { "A" => Some(7), "B" => Some(9), _ => None };
    c.strip_ansi_escaping = pick2("strip_ansi_escaping", true, false);
    c.wait = wait_of(&s("wait"));
    for e in ["X", "Y"] {
        match l["env"][e].as_str().unwrap_or("U") {
            "A" => { c.environment.insert(e.to_string(), format!("{e}-a-val")); }
            // (value B of the variable Y is the EMPTY string: set, but empty - not the same as not set)
            "B" => { c.environment.insert(e.to_string(), if e == "Y" { String::new() } else { format!("{e}-b-val") }); }
            _ => {}
        }
    }
    c
}

pub fn config_to_layer(c: &TestCaseConfig) -> Value {
    let ab = |is_a: Option<bool>| match is_a { Some(true) => "A", Some(false) => "B", None => "U" };
    let mut scalar = serde_json::Map::new();
    scalar.insert("output_stream".into(), json!(match c.output_stream { Some(OutputStreamControl::Stderr) => "A", Some(OutputStreamControl::Combined) => "B", Some(_) => "?", None => "U" }));
    scalar.insert("keep_crlf".into(), json!(ab(c.keep_crlf)));
    scalar.insert("timeout".into(), json!(ab(c.timeout.map(|d| d == Duration::from_secs(3)))));
    scalar.insert("detached".into(), json!(ab(c.detached)));
    scalar.insert("skip_document_code".into(), json!(ab(c.skip_document_code.map(|x| x == 7))));
    scalar.insert("strip_ansi_escaping".into(), json!(ab(c.strip_ansi_escaping)));
    scalar.insert("wait".into(), json!(ab(c.wait.as_ref().map(|w| w.path.is_none()))));
    let mut env = serde_json::Map::new();
    for e in ["X", "Y"] {
        env.insert(e.into(), json!(match c.environment.get(e).map(|s| s.as_str()) { None => "U", Some(v) if v.ends_with("-a-val") => "A", Some(v) if v.ends_with("-b-val") || (e == "Y" && v.is_empty()) => "B", Some(_) => "?" }));
    }
    let _ = KEYS;
    json!({"scalar": scalar, "env": env})
}

fn one(id: u64, v: &Value) -> Value {
    let (cli, tc, doc, fmt) = (layer_to_config(&v["cli"]), layer_to_config(&v["tc"]), layer_to_config(&v["doc"]), layer_to_config(&v["fmt"]));
    let obs = match guarded(|| {
        // parser (markdown.rs), test command (test.rs), executor (stateful_executor.rs)
        let parsed = tc.with_defaults_from(&doc).with_defaults_from(&fmt);
        let commanded = parsed.with_overrides_from(&cli);
        let eff = commanded.with_defaults_from(&doc);
        let assoc = cli.with_defaults_from(&tc).with_defaults_from(&doc) == cli.with_defaults_from(&tc.with_defaults_from(&doc))
            && tc.with_defaults_from(&doc).with_defaults_from(&fmt) == tc.with_defaults_from(&doc.with_defaults_from(&fmt));
        let empty = TestCaseConfig::empty();
        let ident = tc.with_defaults_from(&empty) == tc && empty.with_defaults_from(&tc) == tc
            && doc.with_overrides_from(&empty) == doc && empty.with_overrides_from(&doc) == doc;
        // document level: lists accumulate, scalars take the higher layer
        let d_cli = DocumentConfig { prepend: vec!["p-cli".into()], append: vec!["a-cli".into()], total_timeout: Some(Duration::from_secs(5)), ..DocumentConfig::empty() };
        let d_doc = DocumentConfig { prepend: vec!["p-doc".into()], append: vec!["a-doc".into()], total_timeout: Some(Duration::from_secs(9)), shell: Some("/bin/dash".into()), defaults: doc.clone(), ..DocumentConfig::empty() };
        let d_fmt = DocumentConfig::default_markdown();
        let merged = d_fmt.with_overrides_from(&d_doc).with_overrides_from(&d_cli);
        let lists_ok = merged.prepend == vec![PathBuf::from("p-cli"), PathBuf::from("p-doc")]
            && merged.append == vec![PathBuf::from("a-doc"), PathBuf::from("a-cli")]
            && merged.total_timeout == Some(Duration::from_secs(5)) && merged.shell == Some(PathBuf::from("/bin/dash"))
            && merged.defaults == doc
            && d_doc.with_overrides_from(&DocumentConfig::empty()) == d_doc;
        json!({"eff": config_to_layer(&eff), "associative": assoc, "identity": ident, "lists_ok": lists_ok, "e2e": "skip"})
    }) {
        Ok(o) => o,
        Err(m) => json!({"eff": {"scalar": {}, "env": {}}, "associative": false, "identity": false, "lists_ok": false, "e2e": "skip", "panic": m}),
    };
    json!({"ev": "Load", "id": id, "cli": v["cli"], "tc": v["tc"], "doc": v["doc"], "fmt": v["fmt"], "model_eff": v["eff"], "obs": obs})
}

/// `config-replay --vectors F --records OUT`
pub fn replay(args: &[String]) {
    let vectors = read_ndjson(&arg_required(args, "--vectors"));
    let records = arg_required(args, "--records");
    let mut w = NdjsonWriter::create(&records);
    for (i, v) in vectors.iter().enumerate() {
        w.write(&one(i as u64 + 1, v));
    }
    w.finish();
}

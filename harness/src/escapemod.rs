//! C11: replay of Escape class sequences (and sweeps over all bytes / Unicode scalars) into the real Escaper and
//! the reader of escaped expectations.

use std::time::Duration;

use scrut::escaping::Escaper;
use scrut::expectation::ExpectationMaker;
use scrut::rules::registry::RuleRegistry;
use serde_json::json;
use serde_json::Value;
use unicode_categories::UnicodeCategories;

use crate::util::*;

fn reps(class: &str) -> Vec<Vec<u8>> {
    let s = |x: &str| x.as_bytes().to_vec();
    match class {
        "P" => vec![s("z"), s(" "), s("~"), s("("), s(")"), s(":"), s("*")],
        "Px" => vec![s("x")],
        "Ph" => vec![s("1"), s("9"), s("c"), s("d")],
        "P0" => vec![s("0")],
        "Pe" => vec![s("t"), s("a"), s("b"), s("e"), s("f"), s("r"), s("v")],
        "Pn" => vec![s("n")],
        "B" => vec![s("\\")],
        "T" => vec![vec![9]],
        "Cn" => vec![vec![7], vec![8], vec![0x0c], vec![0x0b], vec![0x0d]],
        "Cx" => vec![vec![1], vec![0], vec![0x1b], vec![0x7f], vec![0x1f]],
        "U" => vec![s("é"), s("日"), s("😀"), s("\u{a0}"), s("ß")],
        "O" => vec![s("\u{85}"), s("\u{200b}"), s("\u{e000}"), s("\u{378}"), s("\u{feff}"), s("\u{ad}")],
        "I" => vec![vec![0xff], vec![0xc3], vec![0x80], vec![0xf8]],
        "S" => vec![s(" (esc)"), s(" (escaped)")],
        other => tool_error(&format!("unknown class {other}")),
    }
}

const CLASSES: &[&str] = &["P", "Px", "Ph", "P0", "Pe", "Pn", "B", "T", "Cn", "Cx", "U", "O", "I", "S"];

fn escaper(mode: &str) -> Escaper {
    if mode == "ascii" { Escaper::Ascii } else { Escaper::Unicode }
}

/// escape `line`, read the text back as the kind it announces, compare on the original and on neighbours
fn observe(mode: &str, chars: &[Vec<u8>], neighbours: &[Vec<u8>]) -> Value {
    let line: Vec<u8> = chars.concat();
    let esc = escaper(mode);
    let mut with_nl = line.clone();
    with_nl.push(b'\n');
    let text = match guarded(|| esc.escaped_expectation(&with_nl)) {
        Ok(t) => t,
        Err(m) => return json!({"result": "panic", "msg": m, "text": [], "marked": false, "printable_ok": false, "parse_ok": false, "matches_orig": false, "neighbour_matches": 0}),
    };
    // a line that needs no escaping and itself ends like the marker: known collision (C09 sfx_esc), not judged here; the
    // trace specification accepts this only where the model's Collides holds
    if text.as_bytes() == line.as_slice() && (line.ends_with(b" (esc)") || line.ends_with(b" (escaped)")) {
        let printable_ok = if mode == "ascii" { text.bytes().all(|b| (0x20..=0x7e).contains(&b)) } else { text.chars().all(|c| !c.is_other()) };
        return json!({"result": "collision", "msg": "", "text": bytes_to_json(text.as_bytes()), "text_s": text, "marked": false, "printable_ok": printable_ok,
                      "parse_ok": false, "matches_orig": false, "neighbour_matches": 0, "render": {"result": "skip"}});
    }
    let first = judge_text(mode, &text, &line, &with_nl, neighbours);
    // second path by which scrut writes expectation text: the canonical rendering of an existing `equal`
    // expectation (used when documents are updated); only possible for lines that are valid UTF-8
    let second = match String::from_utf8(line.clone()) {
        // lines that end like a modifier group are C08's subject (known findings there), not judged here
        Ok(l) if l.ends_with(')') => json!({"result": "skip"}),
        Ok(l) => {
            let maker = ExpectationMaker::new(RuleRegistry::default());
            match guarded(|| maker.parse(&format!("{l} (equal)")).map(|e| e.to_expression_string(&esc))) {
                Ok(Ok(t2)) => judge_text(mode, &t2, &line, &with_nl, neighbours),
                Ok(Err(_)) => json!({"result": "skip"}),
                Err(m) => json!({"result": "panic", "msg": m, "text": [], "marked": false, "printable_ok": false, "parse_ok": false, "matches_orig": false, "neighbour_matches": 0}),
            }
        }
        Err(_) => json!({"result": "skip"}),
    };
    let mut o = first;
    o["render"] = second;
    o
}

fn judge_text(mode: &str, text: &str, line: &[u8], with_nl: &[u8], neighbours: &[Vec<u8>]) -> Value {
    let printable_ok = if mode == "ascii" {
        text.bytes().all(|b| (0x20..=0x7e).contains(&b))
    } else {
        text.chars().all(|c| !c.is_other())
    };
    let marked = text.ends_with(" (escaped)");
    let maker = ExpectationMaker::new(RuleRegistry::default());
    let (parse_ok, matches_orig, nb, kind_ok, first_nb) = match guarded(|| maker.parse(text)) {
        Ok(Ok(e)) => {
            let (kind, _, _, _) = e.unmake();
            let m = e.matches(with_nl);
            let mut first = String::new();
            let nb = neighbours.iter().filter(|n| {
                let mut n2 = (*n).clone();
                n2.push(b'\n');
                let hit = n.as_slice() != line && e.matches(&n2);
                if hit && first.is_empty() { first = format!("{:?}", n); }
                hit
            }).count();
            (true, m, nb, (kind == "escaped") == marked, first)
        }
        _ => (false, false, 0, false, String::new()),
    };
    json!({"result": "ok", "msg": first_nb, "text": bytes_to_json(text.as_bytes()), "text_s": text, "marked": marked,
           "printable_ok": printable_ok, "parse_ok": parse_ok && kind_ok, "matches_orig": matches_orig, "neighbour_matches": nb})
}

fn neighbours_of(chars: &[Vec<u8>], classes: &[String], seed: u64, id: u64) -> Vec<Vec<u8>> {
    let mut out = vec![];
    for i in 0..chars.len() {
        // delete
        let mut d = chars.to_vec();
        d.remove(i);
        out.push(d.concat());
        // replace by representatives of other classes, and by another representative of the same class
        for k in 0..3u64 {
            let c = CLASSES[pick(seed, id * 131 + i as u64 * 7 + k, CLASSES.len())];
            let r = reps(c);
            let mut x = chars.to_vec();
            x[i] = r[pick(seed, id * 17 + k, r.len())].clone();
            out.push(x.concat());
        }
        let same = reps(&classes[i]);
        let mut x = chars.to_vec();
        x[i] = same[pick(seed, id + 5, same.len())].clone();
        out.push(x.concat());
        // insert
        let mut ins = chars.to_vec();
        ins.insert(i, b"z".to_vec());
        out.push(ins.concat());
        let mut ins2 = chars.to_vec();
        ins2.insert(i, b"\\".to_vec());
        out.push(ins2.concat());
    }
    let mut app = chars.to_vec();
    app.push(b"z".to_vec());
    out.push(app.concat());
    // the escaped text itself, taken literally, is a different line (unless nothing was escaped)
    out
}

/// `escape-replay --vectors F --records OUT --seed S --variants K`
pub fn replay(args: &[String]) {
    let vectors = read_ndjson(&arg_required(args, "--vectors"));
    let records = arg_required(args, "--records");
    let seed = arg_u64(args, "--seed", 0);
    let variants = arg_u64(args, "--variants", 3);
    let items: Vec<(u64, Value)> = vectors.into_iter().enumerate().map(|(i, v)| (i as u64 + 1, v)).collect();
    let results = run_guarded_par(items, Duration::from_secs(60), threads(), move |(id, v): &(u64, Value)| {
        let mode = v["mode"].as_str().unwrap().to_string();
        let classes: Vec<String> = v["s"].as_array().unwrap().iter().map(|c| c.as_str().unwrap().to_string()).collect();
        let mut out = vec![];
        for k in 0..variants {
            let chars: Vec<Vec<u8>> = classes.iter().enumerate().map(|(i, c)| {
                let r = reps(c);
                if k == 0 { r[0].clone() } else { r[pick(seed, id * 1009 + i as u64 * 31 + k, r.len())].clone() }
            }).collect();
            let nb = neighbours_of(&chars, &classes, seed, *id + k);
            let obs = observe(&mode, &chars, &nb);
            out.push(json!({"ev": "Load", "id": id * 10 + k, "mode": mode, "s": classes, "variant": k,
                            "line": bytes_to_json(&chars.concat()), "obs": obs, "model_text": v["text"]}));
        }
        out
    });
    let mut w = NdjsonWriter::create(&records);
    for r in results {
        if let Guarded::Ok(recs) = r {
            recs.iter().for_each(|x| w.write(x));
        } else {
            tool_error("escape harness worker failed");
        }
    }
    w.finish();
}

/// `escape-sweep --records OUT --step K` : every single byte and every K-th Unicode scalar as a one-character line
pub fn sweep(args: &[String]) {
    let records = arg_required(args, "--records");
    let step = arg_u64(args, "--step", 64) as u32;
    let mut items: Vec<(String, Vec<u8>, String)> = vec![];
    for mode in ["ascii", "unicode"] {
        for b in (0u16..=255).filter(|b| *b != 10) {
            items.push((mode.to_string(), vec![b as u8], format!("byte {b}")));
            // and in context: backslash before / after
            items.push((mode.to_string(), vec![b'\\', b as u8], format!("backslash+byte {b}")));
        }
        let mut cp = 0u32;
        while cp <= 0x10FFFF {
            if let Some(c) = char::from_u32(cp).filter(|c| *c != '\n') {
                let mut buf = [0u8; 4];
                let bytes = c.encode_utf8(&mut buf).as_bytes().to_vec();
                items.push((mode.to_string(), bytes.clone(), format!("U+{cp:04X}")));
                if cp % (step * 8).max(1) == 0 {
                    let mut v = b"a\\".to_vec();
                    v.extend(&bytes);
                    items.push((mode.to_string(), v, format!("a+backslash+U+{cp:04X}")));
                }
            }
            cp += if cp < 0x3000 { 1.min(step) } else { step };
        }
    }
    let results = run_guarded_par(items, Duration::from_secs(60), threads(), |(mode, bytes, what): &(String, Vec<u8>, String)| {
        let chars = vec![bytes.clone()];
        let mut nb = vec![vec![], b"z".to_vec()];
        let mut more = bytes.clone();
        more.push(b'z');
        nb.push(more);
        let obs = observe(mode, &chars, &nb);
        json!({"mode": mode, "what": what, "line": bytes_to_json(bytes), "obs": obs})
    });
    let mut w = NdjsonWriter::create(&records);
    let mut id = 0u64;
    for r in results {
        id += 1;
        match r {
            Guarded::Ok(mut rec) => {
                let o = rec["obs"].clone();
                // keep the file small: only records that fail something are written in full
                let good = |x: &Value| x["result"] == json!("skip") || (x["printable_ok"] == json!(true) && x["parse_ok"] == json!(true) && x["matches_orig"] == json!(true) && x["neighbour_matches"] == json!(0));
                let ok = good(&o) && good(&o["render"]);
                rec["id"] = json!(id);
                rec["ev"] = json!("Sweep");
                if ok {
                    rec["obs"] = json!({"result": "ok", "marked": o["marked"], "printable_ok": true, "parse_ok": true, "matches_orig": true, "neighbour_matches": 0, "text": [], "msg": "", "render": {"result": "skip"}});
                }
                w.write(&rec);
            }
            _ => tool_error("escape sweep worker failed"),
        }
    }
    w.finish();
}

//! C13: commands that write enumerated payloads are run through both executors; recorded bytes are mapped back to the
//! tokens of specs/Capture.tla. Plus the CR LF replacement on large inputs.

use std::path::PathBuf;
use std::time::Duration;

use scrut::config::DocumentConfig;
use scrut::config::OutputStreamControl;
use scrut::config::TestCaseConfig;
use scrut::executors::bash_runner::BashRunner;
use scrut::executors::bash_script_executor::BashScriptExecutor;
use scrut::executors::context::ContextBuilder;
use scrut::executors::executor::Executor;
use scrut::executors::stateful_executor::StatefulExecutor;
use scrut::output::ExitStatus;
use scrut::parsers::parser::Parser;
use scrut::testcase::TestCase;
use serde_json::json;
use serde_json::Value;

use crate::util::*;

const FAKE_DIVIDER: &str = "~~~~~~~~EXECDIVIDER::FAKESALT::0::0";
const DIVIDER_PREFIX: &str = "~~~~~~~~EXECDIVIDER::";

fn literal_of(tok: &str) -> Option<String> {
    match tok {
        "DIVP" => Some(DIVIDER_PREFIX.to_string()),
        "DIVF" => Some(FAKE_DIVIDER.to_string()),
        t if t.starts_with("P:") => Some(format!("{{{}}}", &t[2..])),
        _ => None,
    }
}

fn octal_of(tok: &str) -> &'static str {
    match tok { "a" => "\\141", "CR" => "\\015", "LF" => "\\012", "E" => "\\033[1m", "NUL" => "\\000", "HI" => "\\351", "GT" => "\\076", "SP" => "\\040", other => tool_error(&format!("unknown token {other}")) }
}

/// shell words that write the payload: bytes as octal escapes, special texts as single-quoted literals (so that what
/// is written is a function of the expression text the shell really received)
fn printer(payload: &[String], redirect: &str) -> Vec<String> {
    let mut cmds = vec![];
    let mut run = String::new();
    for t in payload {
        if let Some(lit) = literal_of(t) {
            if !run.is_empty() { cmds.push(format!("printf '{run}'{redirect}")); run.clear(); }
            cmds.push(format!("printf '%s' '{lit}'{redirect}"));
        } else {
            run.push_str(octal_of(t));
        }
    }
    if !run.is_empty() { cmds.push(format!("printf '{run}'{redirect}")); }
    cmds
}

pub fn tokens_of(bytes: &[u8]) -> Vec<String> {
    let lits: Vec<(String, String)> = ["DIVF", "DIVP", "P:persist_state", "P:excluded_variables", "P:shell_expression", "P:name", "P:state_directory"]
        .iter().map(|t| (t.to_string(), literal_of(t).unwrap())).collect();
    let mut out = vec![];
    let mut i = 0;
    'outer: while i < bytes.len() {
        for (tok, lit) in &lits {
            if bytes[i..].starts_with(lit.as_bytes()) { out.push(tok.clone()); i += lit.len(); continue 'outer; }
        }
        if bytes[i..].starts_with(b"\x1b[1m") { out.push("E".into()); i += 4; continue; }
        out.push(match bytes[i] { b'a' => "a".into(), b'\r' => "CR".into(), b'\n' => "LF".into(), 0 => "NUL".into(), 0xE9 => "HI".into(), b'>' => "GT".into(), b' ' => "SP".into(), b => format!("#{b}") });
        i += 1;
    }
    out
}

fn strs(v: &Value) -> Vec<String> { v.as_array().unwrap().iter().map(|x| x.as_str().unwrap().to_string()).collect() }

fn one(id: u64, v: &Value, bash: &PathBuf) -> Value {
    let exec = v["exec"].as_str().unwrap();
    let tri = |k: &str| match v[k].as_str().unwrap() { "true" => Some(true), "false" => Some(false), _ => None };
    let stream = match v["stream"].as_str().unwrap() { "stderr" => OutputStreamControl::Stderr, "combined" => OutputStreamControl::Combined, _ => OutputStreamControl::Stdout };
    let root = tempfile::Builder::new().prefix("scrut-verif-cap-").tempdir().unwrap_or_else(|e| tool_error(&format!("tempdir: {e}")));
    let (work, tmp) = (root.path().join("work"), root.path().join("tmp"));
    std::fs::create_dir_all(&work).ok();
    std::fs::create_dir_all(&tmp).ok();
    let mut tcs = vec![];
    let mut commands = vec![];
    for (k, t) in v["tests"].as_array().unwrap().iter().enumerate() {
        let mut cmds = printer(&strs(&t["payload"]), "");
        cmds.extend(printer(&strs(&t["err"]), " >&2"));
        let code = t["code"].as_i64().unwrap();
        if code != 0 { cmds.push(if exec == "md" { format!("exit {code}") } else { format!("(exit {code})") }); }
        if cmds.is_empty() { cmds.push("true".into()); }
        let mut config = if exec == "md" { TestCaseConfig::default_markdown() } else { TestCaseConfig::default_cram() };
        config.output_stream = Some(stream.clone());
        if let Some(b) = tri("keep") { config.keep_crlf = Some(b); }
        if let Some(b) = tri("strip") { config.strip_ansi_escaping = Some(b); }
        let mut expr = cmds.join("; ");
        if t["tail"] == json!("backslash") { expr.push_str(" \\"); }
        let hang = t["tail"].as_str().unwrap_or("").to_string();
        if hang.starts_with("hang") {
            expr.push_str("; sleep 3");
            if hang == "hang_test" { config.timeout = Some(Duration::from_secs(1)); }
        }
        if t["tail"] == json!("heredoc") {
            // the payload is the text of a here-document; the expression is what the real parser reads from the document
            let body: String = strs(&t["payload"]).iter().map(|x| match x.as_str() { "GT" => ">", "SP" => " ", "a" => "a", "LF" => "\n", o => tool_error(&format!("heredoc token {o}")) }).collect();
            let text_lines: Vec<&str> = body.trim_end_matches('\n').split('\n').collect();
            let parsed = if exec == "md" {
                let mut d = String::from("# t\n\n```scrut\n$ cat <<EOF\n");
                for l in &text_lines { d.push_str(&format!("> {l}\n")); }
                d.push_str("> EOF\n```\n");
                guarded(|| crate::mdmod::md_parser().parse(&d))
            } else {
                let mut d = String::from("t\n  $ cat <<EOF\n");
                for l in &text_lines { d.push_str(&format!("  > {l}\n")); }
                d.push_str("  > EOF\n");
                guarded(|| crate::crammod::cram_parser().parse(&d))
            };
            expr = match parsed { Ok(Ok((_c, ts))) if ts.len() == 1 => ts[0].shell_expression.clone(), _ => "echo the-document-did-not-parse-to-one-test; exit 99".to_string() };
        }
        commands.push(expr.clone());
        tcs.push(TestCase { title: format!("t{}", k + 1), shell_expression: expr, expectations: vec![], exit_code: None, line_number: k + 1, config });
    }
    let refs: Vec<&TestCase> = tcs.iter().collect();
    let mut doc_config = DocumentConfig::default_markdown();
    if v["tests"].as_array().unwrap().iter().any(|t| t["tail"] == json!("hang_doc")) { doc_config.total_timeout = Some(Duration::from_secs(1)); }
    let ctx = ContextBuilder::default().work_directory(work).temp_directory(tmp).file(PathBuf::from("doc.md"))
        .config(doc_config).build().unwrap_or_else(|e| tool_error(&format!("context: {e}")));
    let result = guarded(|| {
        if exec == "md" { StatefulExecutor::new(BashRunner::stateful_generator(bash)).execute_all(&refs, &ctx) }
        else { BashScriptExecutor::new(bash).execute_all(&refs, &ctx) }
    });
    let obs = match result {
        Err(m) => json!({"result": "panic", "detail": m, "out": [], "err": [], "code": []}),
        // a time limit: the outputs recorded until then come with the error
        Ok(Err(scrut::executors::error::ExecutionError::Timeout(_, outputs))) => json!({"result": "ok", "detail": "timeout",
            "out": outputs.iter().map(|o| tokens_of(&o.stdout.to_bytes())).collect::<Vec<_>>(),
            "err": outputs.iter().map(|o| tokens_of(&o.stderr.to_bytes())).collect::<Vec<_>>(),
            "code": outputs.iter().map(|o| match o.exit_code { ExitStatus::Code(c) => c as i64, ExitStatus::Timeout(_) => -2, _ => -1 }).collect::<Vec<_>>()}),
        Ok(Err(e)) => json!({"result": "err", "detail": format!("{e}").chars().take(200).collect::<String>(), "out": [], "err": [], "code": []}),
        Ok(Ok(outputs)) => json!({"result": "ok", "detail": "",
            "out": outputs.iter().map(|o| tokens_of(&o.stdout.to_bytes())).collect::<Vec<_>>(),
            "err": outputs.iter().map(|o| tokens_of(&o.stderr.to_bytes())).collect::<Vec<_>>(),
            "code": outputs.iter().map(|o| match o.exit_code { ExitStatus::Code(c) => c as i64, _ => -1 }).collect::<Vec<_>>()}),
    };
    json!({"ev": "Load", "id": id, "tests": v["tests"], "keep": v["keep"], "strip": v["strip"], "stream": v["stream"], "exec": exec, "commands": commands, "obs": obs})
}

/// `capture-replay --vectors F --records OUT`
pub fn replay(args: &[String]) {
    let vectors = read_ndjson(&arg_required(args, "--vectors"));
    let records = arg_required(args, "--records");
    let bash = PathBuf::from(arg_value(args, "--bash").unwrap_or_else(|| "/bin/bash".into()));
    let items: Vec<(u64, Value)> = vectors.into_iter().enumerate().map(|(i, v)| (v.get("id").and_then(|x| x.as_u64()).unwrap_or(i as u64 + 1), v)).collect();
    let results = run_guarded_par_retry(items, Duration::from_secs(120), threads(), move |(id, v): &(u64, Value)| one(*id, v, &bash));
    let mut w = NdjsonWriter::create(&records);
    for r in results {
        match r {
            Guarded::Ok(rec) => w.write(&rec),
            _ => tool_error("capture harness worker failed"),
        }
    }
    w.finish();
}

/// `capture-big --records OUT --lines N` : CR LF replacement and both executors on large outputs
pub fn big(args: &[String]) {
    let records = arg_required(args, "--records");
    let n = arg_u64(args, "--lines", 100_000) as usize;
    let bash = PathBuf::from(arg_value(args, "--bash").unwrap_or_else(|| "/bin/bash".into()));
    let mut w = NdjsonWriter::create(&records);
    // 1. the library function on n CR LF terminated lines (own thread with a small stack, like a real worker thread)
    for lines in [1000usize, n] {
        let input: Vec<u8> = b"a\r\n".iter().copied().cycle().take(3 * lines).collect();
        let expect: Vec<u8> = b"a\n".iter().copied().cycle().take(2 * lines).collect();
        let handle = std::thread::Builder::new().stack_size(8 << 20).spawn(move || scrut::newline::replace_crlf(&input).to_vec());
        let res = handle.map_err(|e| e.to_string()).and_then(|h| h.join().map_err(|_| "panicked".to_string()));
        let ok = matches!(&res, Ok(v) if *v == expect);
        w.write(&json!({"ev": "Big", "what": format!("replace_crlf on {lines} CR LF lines"), "ok": ok, "detail": res.err().unwrap_or_default()}));
    }
    // 2. both executors: many lines on both streams at once
    for exec in ["md", "cram"] {
        let root = tempfile::Builder::new().prefix("scrut-verif-cap-").tempdir().unwrap();
        let (work, tmp) = (root.path().join("work"), root.path().join("tmp"));
        std::fs::create_dir_all(&work).ok();
        std::fs::create_dir_all(&tmp).ok();
        let lines = n;
        let expr = format!("yes 'out' | head -n {lines} & yes 'err' | head -n {lines} >&2; wait");
        let mut config = if exec == "md" { TestCaseConfig::default_markdown() } else { TestCaseConfig::default_cram() };
        config.output_stream = Some(OutputStreamControl::Stdout);
        let tc = TestCase { title: "big".into(), shell_expression: expr, expectations: vec![], exit_code: None, line_number: 1, config };
        let ctx = ContextBuilder::default().work_directory(work).temp_directory(tmp).file(PathBuf::from("doc.md"))
            .config(DocumentConfig::default_markdown()).build().unwrap();
        let r = guarded(|| {
            if exec == "md" { StatefulExecutor::new(BashRunner::stateful_generator(&bash)).execute_all(&[&tc], &ctx) }
            else { BashScriptExecutor::new(&bash).execute_all(&[&tc], &ctx) }
        });
        let (ok, detail) = match r {
            Ok(Ok(o)) if o.len() == 1 => {
                let (so, se) = (o[0].stdout.to_bytes(), o[0].stderr.to_bytes());
                (so.len() == 4 * lines && se.len() == 4 * lines && so.chunks(4).all(|c| c == b"out\n") && se.chunks(4).all(|c| c == b"err\n"),
                 format!("stdout {} bytes, stderr {} bytes", so.len(), se.len()))
            }
            Ok(Ok(o)) => (false, format!("{} outputs", o.len())),
            Ok(Err(e)) => (false, format!("{e}").chars().take(200).collect()),
            Err(m) => (false, format!("panic: {m}")),
        };
        w.write(&json!({"ev": "Big", "what": format!("{exec} executor: {lines} lines on stdout and stderr at once"), "ok": ok, "detail": detail}));
    }
    w.finish();
}

//! C01 / C02 / C03: replay of DiffAlgo vectors (TLC-generated) and random probes into the real
//! `DiffTool::diff` / `TestCase::validate`.

use std::time::Duration;

use rand::rngs::SmallRng;
use rand::Rng;
use rand::SeedableRng;
use scrut::config::OutputStreamControl;
use scrut::config::TestCaseConfig;
use scrut::diff::DiffLine;
use scrut::diff::DiffTool;
use scrut::expectation::Expectation;
use scrut::expectation::ExpectationMaker;
use scrut::output::ExitStatus;
use scrut::output::Output;
use scrut::rules::registry::RuleRegistry;
use scrut::testcase::TestCase;
use scrut::testcase::TestCaseError;
use serde_json::json;
use serde_json::Value;

use crate::util::*;

/// families of concrete line texts; all lines of one input come from one family and are distinct
const FAMILIES: &[&[&str]] = &[
    &["alpha", "bravo", "charlie", "delta", "echo", "foxtrot", "golf", "hotel", "india", "juliet", "kilo", "lima", "mike", "november"],
    &["l 1", "l 2", "l 3", "l 4", "l 5", "l 6", "l 7", "l 8", "l 9", "l 10", "l 11", "l 12", "l 13", "l 14"],
    &["äpfel", "bär", "çedille", "đak", "école", "ƒunc", "ğöz", "ħal", "ïle", "ĵaro", "ķis", "ļoti", "мир", "ñu"],
    &["a.b", "a+b", "a|b", "a(b", "a[b", "a{b", "a^b", "a$b", "a\\b", "a)b", "a]b", "a}b", "a-b", "a_b"],
    // near misses: texts that are prefixes / one-byte extensions of each other
    &["bar", "bar!", "ba", "bar ", "!bar", "barr", "Bar", "bar.", "ar", "b", "bar?", "ba r", "rab", "bar0"],
    &["x (glob)", "x (?)", "x (re)", "x (eq)", "x ()", "x (*)", "x (+)", "x (no-eol)", "x (esc)", "[1]", "$ x", "> x", "# x", "```"],
];

pub struct Concrete {
    pub lines: Vec<Vec<u8>>, // each incl. terminator (except possibly last)
    pub exp_texts: Vec<String>,
    pub exps: Vec<Expectation>,
    pub quant: Vec<String>,
}

fn regex_escape(s: &str) -> String {
    regex::escape(s)
}

fn glob_escape_ok(s: &str) -> bool {
    // no wildcard, no backslash, and not the `<expr> (escaped) (glob)` form
    !s.contains('*') && !s.contains('?') && !s.contains('\\') && !s.ends_with(')')
}

/// Build real expectations whose rules are *intended* to realise the rows `want[k]` (0-based line
/// indices) over `lines`; the realised matrix is always recomputed by the caller.
pub fn concretise(
    want: &[Vec<usize>],
    quant: &[String],
    m: usize,
    final_newline: bool,
    seed: u64,
    salt: u64,
) -> Concrete {
    let fam = FAMILIES[pick(seed, salt, FAMILIES.len())];
    concretise_fam(want, quant, m, final_newline, seed, salt, fam)
}

/// like [`concretise`], with the line texts drawn from the given family
pub fn concretise_fam(
    want: &[Vec<usize>],
    quant: &[String],
    m: usize,
    final_newline: bool,
    seed: u64,
    salt: u64,
    fam: &[&str],
) -> Concrete {
    let texts: Vec<&str> = (0..m).map(|l| fam[l % fam.len()]).collect();
    // for m > family size make texts distinct by suffixing
    let texts: Vec<String> = texts
        .iter()
        .enumerate()
        .map(|(i, t)| if i >= fam.len() { format!("{t}{i}") } else { t.to_string() })
        .collect();
    let lines: Vec<Vec<u8>> = texts
        .iter()
        .enumerate()
        .map(|(i, t)| {
            let mut b = t.as_bytes().to_vec();
            if i + 1 < m || final_newline {
                b.push(b'\n');
            }
            b
        })
        .collect();
    let maker = ExpectationMaker::new(RuleRegistry::default());
    let mut exp_texts = vec![];
    let mut exps = vec![];
    for (k, row) in want.iter().enumerate() {
        let qs = match quant[k].as_str() {
            "1" => "",
            s => s,
        };
        let choice = pick(seed, salt * 31 + k as u64 + 1, 4);
        let (expr, kind): (String, &str) = if row.is_empty() {
            match choice {
                0 => (format!("NOPE{k}"), "equal"),
                1 => (format!("NOPE{k}*"), "glob"),
                2 => (format!("NOPE{k}.*"), "regex"),
                _ => (format!("NOPE{k}"), "no-eol"),
            }
        } else if row.len() == 1 {
            let l = row[0];
            let t = &texts[l];
            let unterminated = l + 1 == m && !final_newline;
            if unterminated {
                match choice {
                    0 | 1 => (t.clone(), "no-eol"),
                    2 => (regex_escape(t), "regex"),
                    _ => {
                        if glob_escape_ok(t) {
                            (t.clone(), "glob")
                        } else {
                            (t.clone(), "no-eol")
                        }
                    }
                }
            } else {
                match choice {
                    0 | 1 => (t.clone(), "equal"),
                    2 => (regex_escape(t), "regex"),
                    _ => {
                        if glob_escape_ok(t) {
                            (t.clone(), "glob")
                        } else if t.ends_with(')') {
                            (t.clone(), "equal") // `x (no-eol) (escaped)` has a special meaning
                        } else {
                            (t.replace('\\', "\\\\"), "escaped")
                        }
                    }
                }
            }
        } else if row.len() == m {
            match choice {
                0 | 1 => ("*".to_string(), "glob"),
                _ => (".*".to_string(), "regex"),
            }
        } else {
            let alts: Vec<String> = row.iter().map(|l| regex_escape(&texts[*l])).collect();
            (format!("({})", alts.join("|")), "regex")
        };
        // render as a user would: plain text for equal without quantifier
        let text = if kind == "equal" && qs.is_empty() && !looks_like_modifier(&expr) {
            expr.clone()
        } else {
            format!("{expr} ({kind}{qs})")
        };
        let e = maker
            .parse(&text)
            .unwrap_or_else(|err| tool_error(&format!("concretise: cannot parse `{text}`: {err}")));
        exp_texts.push(text);
        exps.push(e);
    }
    Concrete {
        lines,
        exp_texts,
        exps,
        quant: quant.to_vec(),
    }
}

fn looks_like_modifier(expr: &str) -> bool {
    expr.ends_with(')')
}

pub fn realised_matrix(c: &Concrete) -> Vec<Vec<usize>> {
    c.exps
        .iter()
        .map(|e| {
            (0..c.lines.len())
                .filter(|l| e.matches(&c.lines[*l]))
                .map(|l| l + 1)
                .collect()
        })
        .collect()
}

/// Run the real diff and project the result onto the spec's `out` shape
pub fn run_real(c: &Concrete, want_steps: bool) -> Value {
    let output: Vec<u8> = c.lines.concat();
    let n = c.exps.len();
    let m = c.lines.len();
    // self-check that quantifier flags were parsed as intended (tool error otherwise)
    for (k, e) in c.exps.iter().enumerate() {
        let q = match (e.optional, e.multiline) {
            (false, false) => "1",
            (true, false) => "?",
            (true, true) => "*",
            (false, true) => "+",
        };
        if q != c.quant[k] {
            tool_error(&format!("quantifier of `{}` parsed as {q}, wanted {}", c.exp_texts[k], c.quant[k]));
        }
    }
    let realised = realised_matrix(c);
    if want_steps {
        scrut::verif::capture(true);
    }
    let tool = DiffTool::new(c.exps.clone());
    let diff = tool.diff(&output);
    let steps = if want_steps {
        let s = scrut::verif::take();
        scrut::verif::capture(false);
        s
    } else {
        vec![]
    };
    let (out, hd, bytes_ok, err) = match diff {
        Ok(diff) => {
            let mut out = vec![];
            let mut bytes_ok = true;
            let mut concat: Vec<u8> = vec![];
            for dl in &diff.lines {
                match dl {
                    DiffLine::MatchedExpectation { index, lines, .. } => {
                        for (i, b) in lines {
                            if *i >= m || &c.lines[*i] != b {
                                bytes_ok = false;
                            }
                            concat.extend_from_slice(b);
                        }
                        out.push(json!({"t":"M","e":index+1,"ls":lines.iter().map(|(i,_)| i+1).collect::<Vec<_>>()}));
                    }
                    DiffLine::UnmatchedExpectation { index, .. } => {
                        out.push(json!({"t":"U","e":index+1,"ls":[]}));
                    }
                    DiffLine::UnexpectedLines { lines } => {
                        for (i, b) in lines {
                            if *i >= m || &c.lines[*i] != b {
                                bytes_ok = false;
                            }
                            concat.extend_from_slice(b);
                        }
                        out.push(json!({"t":"X","e":0,"ls":lines.iter().map(|(i,_)| i+1).collect::<Vec<_>>()}));
                    }
                }
            }
            if concat != output {
                bytes_ok = false;
            }
            (out, diff.has_differences(), bytes_ok, String::new())
        }
        Err(e) => (vec![], true, false, e.to_string()),
    };
    // TestCase::validate on stdout, and on stderr with the other stream holding unrelated bytes
    let val = |on_stderr: bool| -> String {
        let tc = TestCase {
            title: "t".into(),
            shell_expression: "true".into(),
            expectations: c.exps.clone(),
            exit_code: None,
            line_number: 1,
            config: TestCaseConfig {
                output_stream: if on_stderr { Some(OutputStreamControl::Stderr) } else { None },
                ..TestCaseConfig::empty()
            },
        };
        let other: Vec<u8> = b"UNRELATED other stream\n".to_vec();
        let o = Output {
            stdout: if on_stderr { other.clone().into() } else { output.clone().into() },
            stderr: if on_stderr { output.clone().into() } else { other.into() },
            exit_code: ExitStatus::Code(0),
        };
        match tc.validate(&o) {
            Ok(()) => "ok".into(),
            Err(TestCaseError::MalformedOutput(d)) => {
                // the diff carried by the error must be the diff of the selected stream
                let same = tool.diff(&output).map(|d2| d2 == d).unwrap_or(false);
                if same { "malformed_output".into() } else { "malformed_output_other_diff".into() }
            }
            Err(TestCaseError::InvalidExitCode { .. }) => "invalid_exit_code".into(),
            Err(TestCaseError::InternalError(_)) => "internal_error".into(),
            Err(TestCaseError::Timeout) => "timeout".into(),
            Err(TestCaseError::Skipped) => "skipped".into(),
        }
    };
    json!({
        "ev": "Load",
        "n": n, "m": m, "q": c.quant, "M": realised,
        "out": out, "hd": hd, "bytes_ok": bytes_ok, "err": err,
        "val_out": val(false), "val_err": val(true),
        "panic": false, "hang": false,
        "exps": c.exp_texts,
        "output": String::from_utf8_lossy(&output),
        "steps": steps,
    })
}

fn failed_record(kind: &str, msg: &str, c_desc: Value) -> Value {
    json!({
        "ev": "Load", "n": 0, "m": 0, "q": [], "M": [], "out": [], "hd": true,
        "bytes_ok": false, "err": msg, "val_out": "none", "val_err": "none",
        "panic": kind == "panic", "hang": kind == "hang", "desc": c_desc, "steps": [],
        "exps": [], "output": "",
    })
}

struct Job {
    id: u64,
    want: Vec<Vec<usize>>,
    quant: Vec<String>,
    m: usize,
    final_newline: bool,
    model_out: Option<Value>,
    steps: bool,
    seed: u64,
}

fn run_jobs(jobs: Vec<Job>, records: &str, steps_path: Option<String>) {
    let descs: Vec<Value> = jobs
        .iter()
        .map(|j| json!({"id": j.id, "want": j.want, "q": j.quant, "m": j.m, "final_newline": j.final_newline}))
        .collect();
    let results = run_guarded_par(jobs, Duration::from_secs(20), threads(), |j: &Job| {
        let c = concretise(&j.want, &j.quant, j.m, j.final_newline, j.seed, j.id);
        let mut rec = run_real(&c, j.steps);
        let o = rec.as_object_mut().unwrap();
        o.insert("id".into(), json!(j.id));
        o.insert("final_newline".into(), json!(j.final_newline));
        o.insert("job".into(), json!({"id": j.id, "final_newline": j.final_newline, "seed": j.seed, "m": j.m, "q": j.quant,
            "M": j.want.iter().map(|r| r.iter().map(|l| l + 1).collect::<Vec<_>>()).collect::<Vec<_>>()}));
        // step-level agreement with the (A) model's prediction: only meaningful when the intended
        // matrix was realised exactly
        let want1: Vec<Vec<usize>> = j.want.iter().map(|r| r.iter().map(|l| l + 1).collect()).collect();
        let realised_ok = json!(want1) == o["M"];
        o.insert("as_intended".into(), json!(realised_ok));
        if let Some(mo) = &j.model_out {
            o.insert("model_out_eq".into(), json!(!realised_ok || *mo == o["out"]));
        } else {
            o.insert("model_out_eq".into(), json!(true));
        }
        rec
    });
    let mut w = NdjsonWriter::create(records);
    let mut sw = steps_path.map(|p| NdjsonWriter::create(&p));
    for (i, r) in results.into_iter().enumerate() {
        let rec = match r {
            Guarded::Ok(mut rec) => {
                // the intended matrix is, by construction, what the *documented* meaning of the generated
                // expectations gives; when the real rules realise something else, the same result is
                // also judged against the documented matrix (a second, "oracle" record)
                if rec["as_intended"] == json!(false) {
                    let mut o = rec.clone();
                    o["M"] = rec["job"]["M"].clone();
                    o["id"] = json!(rec["id"].as_u64().unwrap() + 5_000_000);
                    o["oracle"] = json!(true);
                    o.as_object_mut().unwrap().remove("steps");
                    w.write(&o);
                }
                let steps = rec.as_object_mut().unwrap().remove("steps").unwrap_or(json!([]));
                if let (Some(sw), Some(arr)) = (sw.as_mut(), steps.as_array()) {
                    if !arr.is_empty() {
                        // a step trace = the Load record (input only) followed by the step events
                        sw.write(&json!({"ev":"Input","id":rec["id"],"n":rec["n"],"m":rec["m"],"q":rec["q"],"M":rec["M"]}));
                        for s in arr {
                            sw.write_raw(s.as_str().unwrap());
                        }
                    }
                }
                rec
            }
            Guarded::Panic(msg) => {
                let mut rec = failed_record("panic", &msg, descs[i].clone());
                rec["id"] = descs[i]["id"].clone();
                rec
            }
            Guarded::Hang => {
                let mut rec = failed_record("hang", "no result within 20 s", descs[i].clone());
                rec["id"] = descs[i]["id"].clone();
                rec
            }
        };
        w.write(&rec);
    }
    w.finish();
    if let Some(sw) = sw {
        sw.finish();
    }
}

/// `diff-replay --vectors F --records OUT [--steps OUT2 --steps-every K] --seed S`
pub fn replay(args: &[String]) {
    let vectors = read_ndjson(&arg_required(args, "--vectors"));
    let records = arg_required(args, "--records");
    let steps_path = arg_value(args, "--steps");
    let steps_every = arg_u64(args, "--steps-every", 20);
    let seed = arg_u64(args, "--seed", 0);
    let mut jobs = vec![];
    let mut id = 0u64;
    for v in &vectors {
        let m = v["m"].as_u64().unwrap() as usize;
        let quant: Vec<String> = v["q"].as_array().unwrap().iter().map(|x| x.as_str().unwrap().to_string()).collect();
        let want: Vec<Vec<usize>> = v["M"]
            .as_array()
            .unwrap()
            .iter()
            .map(|row| row.as_array().unwrap().iter().map(|x| x.as_u64().unwrap() as usize - 1).collect())
            .collect();
        // a vector that carries `id` + `final_newline` is a replay of one exact earlier job
        if let (Some(fixed_id), Some(fnl)) = (v.get("id").and_then(|x| x.as_u64()), v.get("final_newline").and_then(|x| x.as_bool())) {
            jobs.push(Job {
                id: fixed_id,
                want: want.clone(),
                quant: quant.clone(),
                m,
                final_newline: fnl,
                model_out: None,
                steps: steps_path.is_some(),
                seed: v.get("seed").and_then(|x| x.as_u64()).unwrap_or(seed),
            });
            continue;
        }
        for final_newline in [true, false] {
            if !final_newline && m == 0 {
                continue;
            }
            id += 1;
            jobs.push(Job {
                id,
                want: want.clone(),
                quant: quant.clone(),
                m,
                final_newline,
                model_out: if final_newline { Some(v["out"].clone()) } else { None },
                steps: steps_path.is_some() && id % steps_every == 0,
                seed,
            });
        }
    }
    run_jobs(jobs, &records, steps_path);
}

/// `diff-probe --count N --records OUT --seed S [--max-n 8 --max-m 14]` : random inputs beyond the MC bound
pub fn probe(args: &[String]) {
    let count = arg_u64(args, "--count", 1000);
    let records = arg_required(args, "--records");
    let seed = arg_u64(args, "--seed", 0);
    let max_n = arg_u64(args, "--max-n", 8) as usize;
    let max_m = arg_u64(args, "--max-m", 14) as usize;
    let mut rng = SmallRng::seed_from_u64(seed ^ 0xD1FF);
    let mut jobs = vec![];
    for id in 1..=count {
        let n = rng.gen_range(0..=max_n);
        let m = rng.gen_range(0..=max_m);
        let style = rng.gen_range(0..4);
        let quant: Vec<String> = (0..n)
            .map(|_| {
                let qs = if style == 0 { ["1", "1", "1", "?"] } else { ["1", "?", "*", "+"] };
                qs[rng.gen_range(0..4)].to_string()
            })
            .collect();
        let want: Vec<Vec<usize>> = (0..n)
            .map(|k| {
                match style {
                    // near-diagonal (mostly passing, deterministic-ish)
                    0 | 1 => {
                        let mut row = vec![];
                        if m > 0 {
                            let c = (k * m) / n.max(1);
                            for l in 0..m {
                                let near = l == c || (style == 1 && (l as i64 - c as i64).abs() <= 1 && rng.gen_bool(0.6));
                                if near && rng.gen_bool(0.9) {
                                    row.push(l);
                                }
                            }
                        }
                        row
                    }
                    // overlapping / dense (nondeterministic)
                    2 => (0..m).filter(|_| rng.gen_bool(0.5)).collect(),
                    // sparse
                    _ => (0..m).filter(|_| rng.gen_bool(0.15)).collect(),
                }
            })
            .collect();
        jobs.push(Job {
            id,
            want,
            quant,
            m,
            final_newline: rng.gen_bool(0.7),
            model_out: None,
            steps: false,
            seed,
        });
    }
    run_jobs(jobs, &records, None);
}
